"""Address-shape alphabets (DESIGN section 6, C02).  A shape is (base, index, scale, disp, style) in one of the
documented syntaxes: [base], [base+-disp], [base+index], [base+index*scale+-disp] (either factor order),
[scale*index+-disp], [disp].  Shapes x86-64 cannot encode (mixed 32/64-bit registers, rsp as a *scaled* index or
as both base and index) are not generated here."""
from .decode import R64, R32, REGW

DISPS_Q = [None, 1, -1, 0x7f, -0x80, 0x80, -0x81, 0x100, 0x7fffffff, -0x80000000]
DISPS_T = [None, 1, -1, 0x7f, -0x7f, 0x80, -0x80, 0x81, -0x81, 0xff, -0xff, 0x100, -0x100, 0x7fff, -0x7fff,
           0x7fffffff, -0x7fffffff, -0x80000000, 0x12345678]


def valid(base, index, scale, disp):
    if base and index and REGW[base] != REGW[index]:
        return False
    if index in ("rsp", "esp"):
        # the stack pointer cannot be an index; written unscaled as the second register it denotes the same
        # address as the swapped form, which is allowed (NASM swap) - except when the base is rsp too
        # Alone with the factor 1 ('[1*rsp+d]') it denotes [rsp+d] as well.
        if scale not in (None, 1) or base in ("rsp", "esp"):
            return False
        if base is None and scale != 1:
            return False
    if base is None and index is None and disp is None:
        return False
    if disp is not None and not (-(1 << 31) <= disp < (1 << 31)):
        return False
    return True


def shape_class(base, index, scale, disp):
    """Coarse class names for known-finding matching."""
    def rc(r):
        if r is None:
            return "none"
        n = (R64.index(r) if r in R64 else R32.index(r))
        c = {0: "acc", 4: "sp", 5: "bp", 12: "r12", 13: "r13"}.get(n, "ext" if n >= 8 else "low")
        return c + ("32" if r in R32 else "")
    if disp is None:
        dc = "none"
    elif -128 <= disp <= 127:
        dc = "d8"
    else:
        dc = "d32"
    asz = "32" if (base in R32 or index in R32) else "64"
    ds = "none" if disp is None else ("neg" if disp < 0 else "pos")
    return {"base": rc(base), "index": rc(index), "scale": str(scale), "dclass": dc, "asz": asz, "dsign": ds}


def key_shapes():
    """~45 key shapes: every special ModRM/SIB case once."""
    S = []
    a = S.append
    for b in ("rax", "rcx", "rsp", "rbp", "r8", "r12", "r13", "r15", "eax", "esp", "ebp", "r12d", "r13d"):
        a((b, None, None, None, ""))
    for b in ("rax", "rbp", "rsp", "r13", "r12", "ecx"):
        a((b, None, None, 0x10, ""))
        a((b, None, None, -0x81, ""))
    a(("rax", None, None, 0x7f, ""))
    a(("rax", None, None, 0x80, ""))
    a(("rax", None, None, -0x80, ""))
    a(("rax", None, None, 0x12345678, "d"))
    for b, i in (("rax", "rcx"), ("rbp", "rcx"), ("rsp", "rcx"), ("rax", "rbp"), ("rax", "r13"), ("r8", "r9"),
                 ("r13", "r12"), ("rax", "r12"), ("eax", "ecx"), ("r8d", "r9d"), ("rax", "rax")):
        a((b, i, None, None, ""))
        a((b, i, 2, None, ""))
        a((b, i, 4, 0x10, "s"))
        a((b, i, 8, -0x12345678, ""))
    a(("rax", "rsp", None, None, ""))
    a(("rbp", "rsp", None, 0x10, ""))
    a(("eax", "esp", None, None, ""))
    for i in ("rax", "rcx", "rbp", "r9", "r12", "r13", "ecx"):
        a((None, i, 1, None, "s"))
        a((None, i, 2, None, "s"))
        a((None, i, 4, 0x10, "s"))
        a((None, i, 8, -0x100, "s"))
    for i, d in (("rsp", None), ("rsp", 0x10), ("rsp", -0x81), ("esp", 0x10)):
        a((None, i, 1, d, "s"))
    a((None, None, None, 0x10, ""))
    a((None, None, None, 0x12345678, ""))
    a((None, None, None, 0x7fffffff, "d"))
    return [s for s in S if valid(*s[:4])]


def grid(tier):
    """Class grid (quick) or the full register grid (thorough) of shapes."""
    if tier == "quick":
        bases = [None, "rax", "rsp", "rbp", "r12", "r13", "r8", "eax", "r13d"]
        idxs = [None, "rcx", "rbp", "r12", "r13", "r9", "rsp", "ecx", "r9d"]
        disps = DISPS_Q
    else:
        bases = [None] + R64 + R32
        idxs = [None] + R64 + R32
        disps = DISPS_T
    out = []
    for b in bases:
        for i in idxs:
            scales = [None] if i is None else [None, 1, 2, 4, 8]
            for sc in scales:
                for d in disps:
                    if not valid(b, i, sc, d):
                        continue
                    if i is not None and b is None and sc is None:
                        continue  # '[index]' alone is '[base]'
                    styles = [""]
                    if i is not None and sc is not None and b is not None:
                        styles = ["", "s"]
                    if i is not None and sc == 1 and b is not None:
                        styles = ["x", "xs"]
                    for st in styles:
                        out.append((b, i, sc, d, st))
    return out
