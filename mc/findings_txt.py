"""Regenerates known_findings.txt from known_findings.json (python3 -m mc.findings_txt)."""
import json
import os

from .build import VERIF

d = json.load(open(os.path.join(VERIF, "known_findings.json")))
with open(os.path.join(VERIF, "known_findings.txt"), "w") as f:
    f.write("# one line per finding of known_findings.json (regenerate: python3 -m mc.findings_txt)\n")
    for e in d["findings"]:
        if e["status"] == "fixed":
            f.write("fixed: property=%s %s %s\n" % (e["property"], e["commit"], e["what"]))
        else:
            f.write("open: property=%s %s %s\n" % (e["property"], e["id"], e["what"]))
