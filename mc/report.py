"""Evidence writer, known-finding matching, violation replay and reporting (DESIGN 4.5, 4.6, 5)."""
import fnmatch
import hashlib
import json
import os
import sys
import time

from . import build

VERIF = build.VERIF
KF_PATH = os.path.join(VERIF, "known_findings.json")


def load_findings(prop):
    if not os.path.exists(KF_PATH):
        return []
    with open(KF_PATH) as f:
        data = json.load(f)
    return [e for e in data.get("findings", []) if e["property"] == prop and e.get("status") == "open"]


def _match_value(pat, val):
    if isinstance(pat, list):
        return any(_match_value(p, val) for p in pat)
    if val is None:
        return pat == "*"
    return fnmatch.fnmatchcase(str(val), str(pat))


def finding_matches(entry, attrs, disc):
    for k, pat in entry.get("match", {}).items():
        if not _match_value(pat, attrs.get(k)):
            return False
    allowed = entry.get("allowed_discrepancies")
    if allowed is not None and "*" not in allowed:
        if not set(disc) <= set(allowed):
            return False
    return True


class Report:
    def __init__(self, prop, tier, seed, level="model_checking", deadline_s=None):
        self.prop = prop
        self.tier = tier
        self.seed = seed
        self.level = level
        self.t0 = time.time()
        dflt = 150 if tier == "quick" else 1800
        self.deadline = self.t0 + float(os.environ.get("VERIF_DEADLINE", deadline_s or dflt))
        self.evaluations = 0
        self.states = 0
        self.transitions = 0
        self.traces = 0
        self.distinct = set()       # keys of distinct non-trivial cases (or just counted)
        self.distinct_n = 0
        self.outcomes = set()
        self.samples = []
        self.extra = {}
        self.bounds = {}
        self.assumptions = []
        self.exhaustive = True
        self.rule = ""
        self.findings = load_findings(prop)
        self.kf_hits = {}           # finding id -> count
        self.kf_example = {}
        self.pending = []           # unlisted violations: (attrs, disc, replay, what)
        self.pending_keys = set()
        self.n_unlisted = 0
        self.unreproduced = []
        self.infra_errors = []
        self.classes = {}           # (mnemonic, form, width, disc) -> [count, example, finding id]

    # ---- bookkeeping -----------------------------------------------------------------------------
    def time_left(self):
        return self.deadline - time.time()

    def expired(self):
        return time.time() > self.deadline

    def sample(self, s, cap=12):
        if len(self.samples) < cap:
            self.samples.append(s)

    def cut_short(self, why):
        self.exhaustive = False
        self.extra.setdefault("cut_short", []).append(why)

    # ---- violations ------------------------------------------------------------------------------
    def fail(self, attrs, disc, replay, what):
        """A case failed its oracle.  attrs: generator-side attributes (dict of str), disc: iterable of
        discrepancy names, replay: self-contained dict for bin/check --replay."""
        disc = sorted(set(disc))
        if os.environ.get("VERIF_DUMP_FAILS"):
            with open(os.environ["VERIF_DUMP_FAILS"], "a") as f:
                f.write(json.dumps({"attrs": attrs, "disc": disc, "what": what}) + "\n")
        ck = (attrs.get("mnemonic", ""), attrs.get("form", ""), attrs.get("width", ""), attrs.get("class", ""),
              ",".join(disc))
        ent = self.classes.get(ck)
        if ent is None:
            ent = self.classes[ck] = [0, what, None]
        ent[0] += 1
        # covered iff every discrepancy is allowed by some open finding whose input pattern matches this case
        matching = [e for e in self.findings if finding_matches(e, attrs, ())]
        if matching:
            left = set(disc)
            used = []
            for e in matching:
                al = e.get("allowed_discrepancies")
                if al is None or "*" in al:
                    took = set(left)
                else:
                    took = left & set(al)
                if took:
                    used.append(e)
                    left -= took
            if not left and used:
                for e in used:
                    self.kf_hits[e["id"]] = self.kf_hits.get(e["id"], 0) + 1
                    if e["id"] not in self.kf_example:
                        self.kf_example[e["id"]] = {"attrs": attrs, "disc": disc, "what": what}
                ent[2] = "+".join(e["id"] for e in used)
                return used[0]["id"]
        self.n_unlisted += 1
        key = json.dumps([attrs.get("class", ""), disc, attrs.get("mnemonic", ""), attrs.get("form", "")])
        if key not in self.pending_keys or len(self.pending) < 40:
            if len(self.pending) < 400:
                self.pending_keys.add(key)
                self.pending.append((attrs, disc, replay, what))
        return None

    # ---- finishing -------------------------------------------------------------------------------
    def finish(self, replay_fn=None, max_report=25):
        """Replays unlisted violations (fresh process) and writes evidence.  Returns exit code."""
        if os.environ.get("VERIF_SUMMARY"):
            for ck in sorted(self.classes):
                n, ex, fid = self.classes[ck]
                print("## %-6s %-10s %-10s w=%-4s %-8s %-28s n=%-6d %s" % (fid or "-", ck[0], ck[1], ck[2], ck[3], ck[4], n, ex[:150]))
        viol_lines = []
        seen_classes = set()
        confirmed = 0
        for attrs, disc, replay, what in self.pending:
            cls = json.dumps([attrs.get("class", ""), disc, attrs.get("mnemonic", ""), attrs.get("form", "")])
            if cls in seen_classes and confirmed >= max_report:
                continue
            still = True
            if replay_fn is not None:
                try:
                    still = replay_fn(replay)
                except Exception as ex:  # a broken replay is an infrastructure error, not a violation
                    self.infra_errors.append("replay failed: %r" % (ex,))
                    still = True
            if not still:
                self.unreproduced.append({"attrs": attrs, "disc": disc, "what": what})
                continue
            seen_classes.add(cls)
            confirmed += 1
            if len(viol_lines) < max_report:
                path = write_replay(self.prop, replay, attrs, disc, what)
                viol_lines.append("VIOLATION property=%s replay=%s" % (self.prop, path))
                sys.stdout.write("# %s: %s disc=%s attrs=%s\n" % (self.prop, what, ",".join(disc),
                                                                json.dumps(attrs, sort_keys=True)))
        for fid in sorted(self.kf_hits):
            e = next(x for x in self.findings if x["id"] == fid)
            print("KNOWN-FINDING: property=%s %s %s (hits=%d)" % (self.prop, fid, e["what"], self.kf_hits[fid]))
        for v in viol_lines:
            print(v)
        nviol = confirmed
        wall = time.time() - self.t0
        cov = {
            "evaluations": int(self.evaluations),
            "distinct_nontrivial": int(self.distinct_n or len(self.distinct)),
            "rule": self.rule,
            "samples": self.samples[:12] or ["(none)"],
            "states": int(max(self.states, 1)),
            "transitions": int(max(self.transitions, 1)),
            "traces_validated_against_impl": int(self.traces),
            "exhaustive": bool(self.exhaustive),
            "bounds_completed": self.bounds,
            "distinct_observed_outcomes": len(self.outcomes),
            "known_findings_hit": self.kf_hits,
            "known_finding_examples": self.kf_example,
            "unlisted_failing_cases": self.n_unlisted,
            "unreproduced": self.unreproduced[:10],
            "tree_hash": build.tree_hash(),
        }
        cov.update(self.extra)
        ev = {
            "property_id": self.prop,
            "tier": self.tier,
            "seed": int(self.seed),
            "level": self.level,
            "coverage": cov,
            "assumptions": self.assumptions,
            "wall_s": round(wall, 2),
            "violations": nviol,
        }
        os.makedirs(os.path.join(VERIF, "evidence"), exist_ok=True)
        p = os.path.join(VERIF, "evidence", "%s.json" % self.prop)
        with open(p + ".tmp", "w") as f:
            json.dump(ev, f, indent=1, sort_keys=True, default=str)
        os.replace(p + ".tmp", p)
        print("%s %s: evaluations=%d states=%d transitions=%d distinct=%d outcomes=%d exhaustive=%s "
              "known_findings=%d violations=%d unreproduced=%d wall=%.1fs" %
              (self.prop, self.tier, cov["evaluations"], cov["states"], cov["transitions"],
               cov["distinct_nontrivial"], cov["distinct_observed_outcomes"], cov["exhaustive"],
               len(self.kf_hits), nviol, len(self.unreproduced), wall))
        if self.infra_errors:
            for m in self.infra_errors[:5]:
                print("# infrastructure: " + m)
        return 1 if nviol else 0


def write_replay(prop, replay, attrs, disc, what):
    d = os.path.join(VERIF, "replays", prop)
    os.makedirs(d, exist_ok=True)
    body = {"property": prop, "replay": replay, "attrs": attrs, "discrepancies": disc, "what": what}
    s = json.dumps(body, sort_keys=True, indent=1, default=str)
    name = hashlib.sha1(s.encode()).hexdigest()[:12] + ".json"
    p = os.path.join(d, name)
    with open(p, "w") as f:
        f.write(s)
    return p
