"""E1 — input-shape explorer against the reference ISA model (DESIGN section 3).

A case is (text, exp_op, exp_ops, flags, attrs).  Each case is assembled on a fresh real instance under each
option configuration; the emitted bytes are decoded by objdump and compared field by field with the expectation.
"""
from . import hexec, isa
from .decode import decode_many


class Case:
    __slots__ = ("text", "op", "ops", "flags", "attrs")

    def __init__(self, text, op, ops, flags=(), attrs=None):
        self.text = text
        self.op = op
        self.ops = tuple(ops)
        self.flags = tuple(flags)
        self.attrs = attrs or {}


def mk(mn, ops, attrs, flags=(), immw=None, exp_op=None, exp_ops=None):
    """Build a Case from a structured instruction; the expectation defaults to 'what was written'."""
    text = isa.render(mn, ops)
    if exp_ops is None:
        exp_ops = tuple(isa.exp_opd(o, immw) for o in ops)
    a = {"mnemonic": mn}
    a.update(attrs)
    return Case(text, exp_op or mn, exp_ops, flags, a)


def cfg_name(cfg):
    return "/".join(cfg)


def evaluate(case, obs, decs):
    """-> (set of discrepancies, emitted hex or None)"""
    if hexec.is_crash(obs):
        return {"crash"}, None
    a = hexec.Asm(obs[-1] if not obs[-1].startswith("SAN:") else obs[-2])
    if a.ret is None:
        return {"harness"}, None
    if a.ret != 0:
        return {"rejected"}, None
    disc = set()
    n = a.off
    if n < 0 or 2 * n > len(a.hex):
        return {"count"}, a.hex
    if a.hi > n:
        disc.add("beyond")
    if a.canary == 0:
        disc.add("canary")
    hx = a.hex[:2 * n]
    if n == 0:
        disc.add("empty")
        return disc, hx
    dec = decs.get(hx)
    if dec is None:
        disc.add("harness")
        return disc, hx
    disc |= isa.compare(case.op, case.ops, dec, case.flags)
    return disc, hx


def run_block(rep, cases, cfgs, extra_check=None, note_outcome=True, validate_tag=None):
    """Assemble every case under every configuration and compare.  extra_check(case, cfg, hex, dec) may
    return additional discrepancies (used by C11).  With validate_tag the expectations are first checked
    against nasm (oracle.validate); unconfirmed cases are not used for a verdict, only counted."""
    if not cases:
        return []
    if validate_tag:
        from . import oracle
        bad, st = oracle.validate(cases, validate_tag)
        ov = rep.extra.setdefault("oracle_validation", {"cases": 0, "nasm_confirmed": 0, "hand_checked_dialect": 0,
                                                        "nasm_rejected": 0, "oracle_unvalidated": 0,
                                                        "unvalidated_samples": []})
        for k in ("cases", "nasm_confirmed", "hand_checked_dialect", "nasm_rejected", "oracle_unvalidated"):
            ov[k] += st[k]
        ov["unvalidated_samples"] = (ov["unvalidated_samples"] + st["unvalidated_samples"])[:12]
        if bad:
            cases = [c for i, c in enumerate(cases) if i not in bad]
    lines = []
    for c in cases:
        t = hexec.esc_fast(c.text)
        for cfg in cfgs:
            lines.append("c64:p:cc\t%s\tA%s" % (hexec.cfg_ops(cfg), t))
    res = hexec.run(lines)
    blobs = set()
    for obs in res:
        if obs and obs[-1].startswith("A:"):
            f = obs[-1].split(":")
            if f[1] == "0":
                n = int(f[2])
                if 0 < n and 2 * n <= len(f[5]):
                    blobs.add(f[5][:2 * n])
    bl = sorted(blobs)
    decs = dict(zip(bl, decode_many([bytes.fromhex(x) for x in bl])))
    k = 0
    results = []
    for c in cases:
        reached = False
        for cfg in cfgs:
            obs = res[k]
            k += 1
            disc, hx = evaluate(c, obs, decs)
            if hx:
                reached = True
            if extra_check is not None and hx and not disc:
                disc |= extra_check(c, cfg, hx, decs.get(hx)) or set()
            rep.evaluations += 1
            rep.traces += 1
            if note_outcome:
                rep.outcomes.add(hx if not disc else tuple(sorted(disc)))
            results.append((c, cfg, disc, hx))
            if disc:
                a = dict(c.attrs)
                a["cfg"] = cfg_name(cfg)
                d = decs.get(hx) if hx else None
                rep.fail(a, disc,
                         {"kind": "e1", "text": c.text, "cfg": list(cfg), "exp": repr((c.op, c.ops, c.flags))},
                         "%r [%s] -> %s %s; expected %s %s" % (c.text, cfg_name(cfg), hx, d.text if d else "",
                                                               c.op, _short(c.ops)))
        if reached:
            rep.distinct_n += 1
        rep.states += 1
    rep.transitions = rep.evaluations
    return results


def _short(ops):
    return ",".join(str(o[1:]) for o in ops)


def replay(r, verbose=False, extra_check=None):
    op, ops, flags = isa.parse_exp(r["exp"])
    c = Case(r["text"], op, ops, flags)
    cfg = tuple(r["cfg"])
    line = "c64:p:cc\t%s\tA%s" % (hexec.cfg_ops(cfg), hexec.esc_fast(c.text))
    obs = hexec.run([line], nproc=1)[0]
    decs = {}
    if obs and obs[-1].startswith("A:"):
        a = hexec.Asm(obs[-1])
        if a.ret == 0 and a.off > 0:
            hx = a.hex[:2 * a.off]
            decs[hx] = decode_many([bytes.fromhex(hx)])[0]
    disc, hx = evaluate(c, obs, decs)
    if extra_check is not None and hx and not disc:
        disc |= extra_check(c, cfg, hx, decs.get(hx)) or set()
    if verbose:
        print("text:     %r  [%s]" % (c.text, cfg_name(cfg)))
        print("observed: %s" % obs)
        print("decoded:  %s" % (decs.get(hx).text if hx in decs else None))
        print("expected: %s %s" % (op, ops))
        print("discrepancies: %s" % sorted(disc))
    return bool(disc)
