"""E1 — input-shape explorer against the reference ISA model (DESIGN section 3).

A case is (text, exp_op, exp_ops, flags, attrs).  Each case is assembled on a fresh real instance under each
option configuration; the emitted bytes are decoded by objdump and compared field by field with the expectation.
"""
from . import hexec, isa
from .decode import decode_many


class Case:
    __slots__ = ("text", "op", "ops", "flags", "attrs")

    def __init__(self, text, op, ops, flags=(), attrs=None):
        self.text = text
        self.op = op
        self.ops = tuple(ops)
        self.flags = tuple(flags)
        self.attrs = attrs or {}


def mk(mn, ops, attrs, flags=(), immw=None, exp_op=None, exp_ops=None):
    """Build a Case from a structured instruction; the expectation defaults to 'what was written'."""
    text = isa.render(mn, ops)
    if exp_ops is None:
        exp_ops = tuple(isa.exp_opd(o, immw) for o in ops)
    a = {"mnemonic": mn}
    a.update(attrs)
    if any(o[0] == "m" and o[4] in ("rsp", "esp") for o in ops):
        flags = tuple(flags) + ("spidx",)
    return Case(text, exp_op or mn, exp_ops, flags, a)


def ops_for(case, cfg):
    """Expected operands under a configuration.  The one documented exception of C02: with the index/base swap
    option STRICT a stack pointer written as index is encoded literally, i.e. as 'no index'."""
    if "spidx" in case.flags and cfg[1] == "STRICT":
        out = []
        for e in case.ops:
            if e[0] == "m":
                lin = tuple((r, c) for r, c in e[3] if r not in ("rsp", "esp")) \
                    if sum(1 for r, _ in e[3]) > 1 else e[3]
                e = (e[0], e[1], e[2], lin, e[4])
            out.append(e)
        return tuple(out)
    return case.ops


def cfg_name(cfg):
    return "/".join(cfg)


def evaluate(case, obs, decs, cfg=None):
    """-> (set of discrepancies, emitted hex or None)"""
    if hexec.is_crash(obs):
        return {"crash"}, None
    a = hexec.Asm(obs[-1] if not obs[-1].startswith("SAN:") else obs[-2])
    if a.ret is None:
        return {"harness"}, None
    if "must_reject" in case.flags:
        # the line must be refused and must not emit anything
        if a.ret == 0:
            return {"accepted"}, a.hex[:2 * max(a.off, 0)] or None
        if a.lo != -1:
            return {"emitted"}, None
        return set(), None
    if a.ret != 0:
        if "may_reject" in case.flags:
            return set(), "REJECTED"
        return {"rejected"}, None
    disc = set()
    n = a.off
    if n < 0 or 2 * n > len(a.hex):
        return {"count"}, a.hex
    if a.hi > n:
        disc.add("beyond")
    if a.canary == 0:
        disc.add("canary")
    hx = a.hex[:2 * n]
    if n == 0:
        disc.add("empty")
        return disc, hx
    dec = decs.get(hx)
    if dec is None:
        disc.add("harness")
        return disc, hx
    exp = ops_for(case, cfg) if cfg else case.ops
    d1 = isa.compare(case.op, exp, dec, case.flags)
    if d1 and cfg and "spidx" in case.flags and cfg[1] == "STRICT":
        # a stack pointer written as the ONLY register ('[1*rsp+d]') under the STRICT swap option: the literal encoding
        # (no index, no base) is the documented exception, the address-preserving one is allowed as well
        alt = tuple((e[0], e[1], e[2], (), e[4]) if e[0] == "m" and len(e[3]) == 1 and e[3][0][0] in ("rsp", "esp") else e
                    for e in exp)
        if alt != tuple(exp):
            d2 = isa.compare(case.op, alt, dec, case.flags)
            d2.discard("asz")      # without registers the address-size prefix changes nothing
            if len(d2) < len(d1):
                d1 = d2
    disc |= d1
    return disc, hx


_G = {}


def _work(rng):
    """Pool worker: assemble, decode and evaluate cases[a:b] under every configuration."""
    try:
        return _work2(rng)
    except SystemExit as e:      # never let a worker exit: multiprocessing would wait for its result forever
        raise RuntimeError("worker aborted: %r" % (e,))


def _work2(rng):
    a, b = rng
    cases = _G["cases"][a:b]
    cfgs = _G["cfgs"]
    extra_check = _G["extra_check"]
    group_check = _G["group_check"]
    lines = []
    for c in cases:
        t = hexec.esc_fast(c.text)
        for cfg in cfgs:
            lines.append("c64:p:cc\t%s\tA%s" % (hexec.cfg_ops(cfg), t))
    res = hexec.run(lines, nproc=_G["inner"])
    # optional second pass: the same line assembled with chunk fitting at the last byte of a 16-byte chunk, so that the
    # assembler first emits the instruction, replaces it by a 1-byte NOP and assembles it AGAIN from the same parsed line
    retry = None
    if _G.get("fit_retry"):
        rl = ["c64:p:cc\t%s\tk16\to15\tA%s" % (hexec.cfg_ops(cfgs[0]), hexec.esc_fast(c.text)) for c in cases]
        retry = hexec.run(rl, nproc=_G["inner"])
    blobs = set()
    for obs in res:
        if obs and obs[-1].startswith("A:"):
            f = obs[-1].split(":")
            if f[1] == "0":
                n = int(f[2])
                if 0 < n and 2 * n <= len(f[5]):
                    blobs.add(f[5][:2 * n])
    bl = sorted(blobs)
    decs = dict(zip(bl, decode_many([bytes.fromhex(x) for x in bl], nproc=_G["inner"])))
    k = 0
    fails = []
    outs = set()
    reached = 0
    conservative = 0
    samples = []
    for ci, c in enumerate(cases):
        got = False
        per = []
        for gi, cfg in enumerate(cfgs):
            obs = res[k]
            k += 1
            disc, hx = evaluate(c, obs, decs, cfg)
            if hx == "REJECTED":
                conservative += 1
                hx = None
            if hx or "must_reject" in c.flags:
                got = True
            if extra_check is not None and hx and not disc:
                disc |= extra_check(c, cfg, hx, decs.get(hx)) or set()
            per.append((cfg, disc, hx))
        if group_check is not None:
            for gi, more in (group_check(c, per) or {}).items():
                per[gi] = (per[gi][0], per[gi][1] | more, per[gi][2])
        if retry is not None and per[0][2] and not per[0][1] and "must_reject" not in c.flags:
            ro = retry[ci]
            plain = per[0][2]
            if len(plain) // 2 < 16:
                if hexec.is_crash(ro):
                    per[0] = (per[0][0], per[0][1] | {"refit-crash"}, per[0][2])
                else:
                    ra = hexec.Asm(ro[-1])
                    want = ("90" + plain) if len(plain) // 2 >= 2 else plain     # a 1-byte instruction still fits
                    if ra.ret != 0 or ra.hex[:2 * max(ra.off - 15, 0)] != want:
                        per[0] = (per[0][0], per[0][1] | {"refit-differs"}, per[0][2])
        for gi, (cfg, disc, hx) in enumerate(per):
            outs.add(hash(hx) if not disc else hash(tuple(sorted(disc))))
            if disc:
                d = decs.get(hx) if hx else None
                fails.append((a + ci, gi, sorted(disc), hx, d.text if d else ""))
        if got:
            reached += 1
        if ci in (0, len(cases) // 2) and len(samples) < 2:
            samples.append({"text": c.text, "cfg": cfg_name(per[0][0]), "bytes": per[0][2],
                            "expected": repr((c.op, c.ops))})
    return fails, outs, reached, len(lines) + (len(retry) if retry else 0), samples, conservative


def run_block(rep, cases, cfgs, extra_check=None, note_outcome=True, validate_tag=None, group_check=None, fit_retry=False):
    """Assemble every case under every configuration and compare.  extra_check(case, cfg, hex, dec) may
    return additional discrepancies; group_check(case, [(cfg, disc, hex)...]) may return {cfg index: set} (used by
    C11).  With validate_tag the expectations are first checked against nasm (oracle.validate); unconfirmed cases
    are not used for a verdict, only counted.  Returns a few written-out samples."""
    if not cases:
        return []
    if validate_tag:
        from . import oracle
        bad, st = oracle.validate(cases, validate_tag)
        ov = rep.extra.setdefault("oracle_validation", {"cases": 0, "nasm_confirmed": 0, "hand_checked_dialect": 0,
                                                        "nasm_rejected": 0, "oracle_unvalidated": 0,
                                                        "unvalidated_samples": []})
        for k in ("cases", "nasm_confirmed", "hand_checked_dialect", "nasm_rejected", "oracle_unvalidated"):
            ov[k] += st[k]
        ov["unvalidated_samples"] = (ov["unvalidated_samples"] + st["unvalidated_samples"])[:12]
        if bad:
            cases = [c for i, c in enumerate(cases) if i not in bad]
    n = len(cases)
    work = n * len(cfgs)
    from . import build as _build
    _build.hexec("plain")        # build in the parent: a build failure must end the check, not a pool worker (which would hang the pool)
    nw = 1 if work < 4000 else min(hexec.NPROC, max(1, work // 4000))
    _G.update(cases=cases, cfgs=cfgs, extra_check=extra_check, group_check=group_check,
              inner=max(1, hexec.NPROC // nw), fit_retry=fit_retry)
    rngs = [(i * n // nw, (i + 1) * n // nw) for i in range(nw)]
    if nw == 1:
        parts = [_work(rngs[0])]
    else:
        import multiprocessing
        with multiprocessing.get_context("fork").Pool(nw) as pool:
            parts = pool.map(_work, rngs)
    samples = []
    for fails, outs, reached, nev, smp, cons in parts:
        if cons:
            rep.extra["conservative_rejections"] = rep.extra.get("conservative_rejections", 0) + cons
        rep.evaluations += nev
        rep.traces += nev
        rep.distinct_n += reached
        if note_outcome:
            rep.outcomes |= outs
        samples += smp
        for idx, gi, disc, hx, dtext in fails:
            c = cases[idx]
            cfg = cfgs[gi]
            a = dict(c.attrs)
            a["cfg"] = cfg_name(cfg)
            rep.fail(a, disc,
                     {"kind": "e1", "text": c.text, "cfg": list(cfg), "exp": repr((c.op, c.ops, c.flags)),
                      "refit": any(x.startswith("refit") for x in disc)},
                     "%r [%s] -> %s %s; expected %s %s" % (c.text, cfg_name(cfg), hx, dtext, c.op, _short(c.ops)))
    rep.states += n
    rep.transitions = rep.evaluations
    _G.clear()
    return samples


def _short(ops):
    return ",".join(str(o[1:]) for o in ops)


def replay(r, verbose=False, extra_check=None):
    op, ops, flags = isa.parse_exp(r["exp"])
    c = Case(r["text"], op, ops, flags)
    cfg = tuple(r["cfg"])
    line = "c64:p:cc\t%s\tA%s" % (hexec.cfg_ops(cfg), hexec.esc_fast(c.text))
    obs = hexec.run([line], nproc=1)[0]
    decs = {}
    if obs and obs[-1].startswith("A:"):
        a = hexec.Asm(obs[-1])
        if a.ret == 0 and a.off > 0:
            hx = a.hex[:2 * a.off]
            decs[hx] = decode_many([bytes.fromhex(hx)])[0]
    disc, hx = evaluate(c, obs, decs, cfg)
    if extra_check is not None and hx and not disc:
        disc |= extra_check(c, cfg, hx, decs.get(hx)) or set()
    if r.get("refit") and hx and not disc:
        ro = hexec.run(["c64:p:cc\t%s\tk16\to15\tA%s" % (hexec.cfg_ops(cfg), hexec.esc_fast(c.text))], nproc=1)[0]
        if hexec.is_crash(ro):
            disc.add("refit-crash")
        else:
            ra = hexec.Asm(ro[-1])
            want = ("90" + hx) if len(hx) // 2 >= 2 else hx
            if ra.ret != 0 or ra.hex[:2 * max(ra.off - 15, 0)] != want:
                disc.add("refit-differs")
            if verbose:
                print("refit:    %s (want %s)" % (ra.hex, want))
    if verbose:
        print("text:     %r  [%s]" % (c.text, cfg_name(cfg)))
        print("observed: %s" % obs)
        print("decoded:  %s" % (decs.get(hx).text if hx in decs else None))
        print("expected: %s %s" % (op, ops))
        print("discrepancies: %s" % sorted(disc))
    return bool(disc)
