"""Boring reference models (documentation-derived) shared by the call-history checks."""

STRICT, NASM, SMART = 0, 1, 2
VALS = (STRICT, NASM, SMART, 99)
SETTERS = ("m", "w", "b", "s", "a")   # asm_mov_imm, asm_sib_index_base_swap, asm_sib_no_base, asm_sib, asm_set_all
INIT = (SMART, NASM, NASM)            # a new instance: SMART / NASM / NASM
NAMES = {0: "STRICT", 1: "NASM", 2: "SMART", 99: "99"}


def opt_step(state, setter, v):
    """Documented semantics of the five setters (man page / README / header comments)."""
    m, w, b = state
    if setter == "m":
        if v in (STRICT, NASM, SMART):
            m = v
    elif setter == "w":
        if v in (STRICT, NASM):
            w = v
    elif setter == "b":
        if v in (STRICT, NASM):
            b = v
    elif setter == "s":
        if v in (STRICT, NASM):
            w = b = v
    elif setter == "a":
        if v in (STRICT, NASM):
            m = w = b = v
        elif v == SMART:
            m = SMART
    return (m, w, b)


# probe lines whose bytes identify each of the 12 option states; expected classes are taken from the
# documentation (src/assemblyline.h comments, README), not from running the code
PROBES = ("mov rax, 0x7fffffff", "mov rax, 0x000000007fffffff", "lea r15, [rax+rsp]", "lea r15, [2*rax]")


def classify_probe(i, hexbytes):
    if i in (0, 1):
        if hexbytes == "b8ffffff7f":
            return "narrow"
        if hexbytes in ("48b8ffffff7f00000000", "48c7c0ffffff7f"):
            return "wide"
        return "?" + hexbytes
    if i == 2:
        return {"4c8d3c20": "literal", "4c8d3c04": "swapped"}.get(hexbytes, "?" + hexbytes)
    return {"4c8d3c4500000000": "literal", "4c8d3c00": "rewritten"}.get(hexbytes, "?" + hexbytes)


def expected_probe_classes(state):
    m, w, b = state
    return ("wide" if m == STRICT else "narrow",
            "narrow" if m == NASM else "wide",
            "swapped" if w == NASM else "literal",
            "rewritten" if b == NASM else "literal")
