"""Boring reference models (documentation-derived) shared by the call-history checks."""

STRICT, NASM, SMART = 0, 1, 2
# the three documented values and undocumented ones: adjacent, negative, far, and values that alias a documented one when
# truncated to 8 or 16 bits (seeded/C12_6: a helper taking the option as uint8_t) or negated
VALS = (STRICT, NASM, SMART, 3, -1, 99, 256, 257, 258, 65537, -255)
SETTERS = ("m", "w", "b", "s", "a")   # asm_mov_imm, asm_sib_index_base_swap, asm_sib_no_base, asm_sib, asm_set_all
INIT = (SMART, NASM, NASM)            # a new instance: SMART / NASM / NASM
NAMES = {0: "STRICT", 1: "NASM", 2: "SMART", 3: "3", -1: "-1", 99: "99", 256: "256", 257: "257", 258: "258", 65537: "65537", -255: "-255"}


def opt_step(state, setter, v):
    """Documented semantics of the five setters (man page / README / header comments)."""
    m, w, b = state
    if setter == "m":
        if v in (STRICT, NASM, SMART):
            m = v
    elif setter == "w":
        if v in (STRICT, NASM):
            w = v
    elif setter == "b":
        if v in (STRICT, NASM):
            b = v
    elif setter == "s":
        if v in (STRICT, NASM):
            w = b = v
    elif setter == "a":
        if v in (STRICT, NASM):
            m = w = b = v
        elif v == SMART:
            m = SMART
    return (m, w, b)


# probe lines whose bytes identify each of the 12 option states; expected classes are taken from the
# documentation (src/assemblyline.h comments, README), not from running the code
PROBES = ("mov rax, 0x7fffffff", "mov rax, 0x000000007fffffff", "lea r15, [rax+rsp]", "lea r15, [2*rax]")


def classify_probe(i, hexbytes):
    if i in (0, 1):
        if hexbytes == "b8ffffff7f":
            return "narrow"
        if hexbytes in ("48b8ffffff7f00000000", "48c7c0ffffff7f"):
            return "wide"
        return "?" + hexbytes
    if i == 2:
        return {"4c8d3c20": "literal", "4c8d3c04": "swapped"}.get(hexbytes, "?" + hexbytes)
    return {"4c8d3c4500000000": "literal", "4c8d3c00": "rewritten"}.get(hexbytes, "?" + hexbytes)


def expected_probe_classes(state):
    m, w, b = state
    return ("wide" if m == STRICT else "narrow",
            "narrow" if m == NASM else "wide",
            "swapped" if w == NASM else "literal",
            "rewritten" if b == NASM else "literal")


# --- chunk fitting / counting (C13, C14) -----------------------------------------------------------------------

def fit_layout(start, lengths, c):
    """Documented placement with chunk size c (c < 2: disabled).  -> (list of (pad, position), final offset)."""
    q = start
    out = []
    for l in lengths:
        pad = 0
        if c >= 2 and l < c and (q % c) + l > c:
            pad = c - q % c
        out.append((pad, q + pad))
        q += pad + l
    return out, q


def count_breaks(start, lengths, c):
    """Number of instructions whose bytes span two or more c-aligned chunks at their final positions."""
    if c < 2:
        return 0
    q = start
    n = 0
    for l in lengths:
        if l > 0 and q // c != (q + l - 1) // c:
            n += 1
        q += l
    return n


# --- instance model for call histories (C07, C15) -----------------------------------------------------------------

class Inst:
    """Documented behaviour of one instance on a caller buffer of n bytes.  A text is a list of instruction lengths;
    None stands for a line the assembler rejects.  RESERVE: an instruction may start at p only if p + 20 <= n."""
    RESERVE = 20

    def __init__(self, n):
        self.n = n
        self.offset = 0
        self.fit = 0        # chunk size when fitting is enabled, else 0

    def set_offset(self, k):
        self.offset = k

    def set_chunk(self, c):
        self.fit = c if c >= 2 else 0

    def _run(self, lens, c_fit):
        """-> (ret, final offset or -1, write extent, start).  The write extent is the end of the highest byte the call
        may have touched: an instruction is written at p once the reserve check at p has passed (p + 20 <= n) - also
        when chunk fitting then decides to replace it by padding and retry at the next chunk."""
        p = self.offset
        if p < 0:
            return 1, -1, None, None
        start = p
        ext = p
        for l in lens:
            if l is None:
                return 1, -1, ext, start
            if l == 0:
                continue
            while True:
                if p + self.RESERVE > self.n:
                    return 1, -1, ext, start
                ext = max(ext, p + l)
                if c_fit >= 2 and l < c_fit and (p % c_fit) + l > c_fit:
                    p += c_fit - p % c_fit
                    continue
                break
            p += l
        return 0, p, ext, start

    def assemble(self, lens):
        ret, off, end, start = self._run(lens, self.fit)
        self.offset = off
        return ret, off, end, start

    def count(self, lens, c):
        start = self.offset
        ret, off, end, st = self._run(lens, 0)
        self.offset = off
        cnt = None
        if ret == 0:
            cnt = count_breaks(start, [l for l in lens if l], c)
        return ret, off, end, st, cnt
