"""Reference ISA model (DESIGN 4.2, Appendix C): what may be written and what it means.

Written from the Intel SDM, not derived from src/instructions.c.  Contains no opcodes: the meaning of
bytes is the decoder's job (mc/decode.py).  A structured instruction is (mnemonic, operands); this module
renders operands to text, computes the expected canonical form and compares it with a decoded one.

Operands (generator side):
  ('r', name) ('x', n) ('y', n) ('mm', n)
  ('m', kw, width, base, index, scale, disp, style)   kw: written size keyword or None; width: expected access
                                                       width in bits or None (don't care); style: see mem_text
  ('i', value, spelling)   ('rel', d, spelling, keyword)
Expected canonical operands:
  ('r', name) ('x', n) ('y', n) ('mm', n) ('m', width, addrsize, linear, disp) ('i', value, width) ('rel', d)
"""
from .decode import R64, R32, R16, R8, R8H, REGW, REGN, canon_op

GP = {8: R8, 16: R16, 32: R32, 64: R64}
KW = {8: "byte", 16: "word", 32: "dword", 64: "qword"}
KWW = {"byte": 8, "word": 16, "dword": 32, "qword": 64}

ALU2 = ["add", "adc", "and", "cmp", "or", "sbb", "sub", "xor"]
UNARY = ["inc", "dec", "neg", "not"]
SHIFTS = ["shl", "sal", "sar", "shr"]
CCS = ["a", "ae", "b", "be", "c", "e", "g", "ge", "l", "le", "na", "nae", "nb", "nbe", "nc", "ne", "ng", "nge",
       "nl", "nle", "no", "np", "ns", "nz", "o", "p", "pe", "po", "s", "z"]
JCC = ["ja", "jae", "jb", "je", "jg", "jge", "jl", "jle", "jne", "jno", "jnp", "jns", "jo", "jp", "js"]
NOOPS = ["clc", "cpuid", "lfence", "mfence", "sfence", "rdpmc", "rdtsc", "rdtscp", "ret", "xend"]
MMXSSE_BIN = ["paddb", "paddd", "paddq", "paddw", "pandn", "pmulhrsw", "pmulhuw", "pmulhw", "pmullw", "pmuludq",
              "por", "psubb", "psubd", "psubq", "psubw", "pxor"]
SSE4_BIN = ["pmulld", "pmuldq"]
SSE_REGONLY = ["cvtdq2pd", "cvtpd2dq", "divpd", "mulpd", "punpcklqdq"]
VEX256 = ["vaddpd", "vdivpd", "vmulpd", "vsubpd", "vpermd"]
VEX128_256 = ["vpaddb", "vpaddd", "vpaddq", "vpaddw", "vpand", "vpandn", "vpmuldq", "vpmulhrsw", "vpmulhuw",
              "vpmulhw", "vpmulld", "vpmullw", "vpmuludq", "vpor", "vpsubb", "vpsubd", "vpsubq", "vpsubw", "vpxor"]
VEXMOV = ["vmovupd", "vmovdqu"]
VEXIMM = ["vperm2i128", "vperm2f128"]
BMI_RMV = ["bextr", "bzhi", "sarx", "shlx", "shrx"]
ADX = ["adcx", "adox"]
PREFETCH = ["clflush", "prefetcht0", "prefetcht1", "prefetcht2", "prefetchnta"]


def needs_rex(name):
    return name in ("spl", "bpl", "sil", "dil") or (name[0] == "r" and name[1:2].isdigit())


def regclass(name):
    """Coarse register class used for known-finding matching."""
    if name in R8H:
        return "high"
    n = REGN[name]
    if n == 0:
        return "acc"
    if n == 4:
        return "sp"
    if n == 5:
        return "bp"
    if n == 12:
        return "r12"
    if n == 13:
        return "r13"
    if n >= 8:
        return "ext"
    if name in ("sil", "dil"):
        return "low8rex"
    return "low"


def tuple_encodable(names, force_rex=False):
    """A high-byte register cannot be combined with anything that forces a REX prefix."""
    if any(n in R8H for n in names):
        if force_rex or any(needs_rex(n) for n in names):
            return False
    return True


# --- rendering -------------------------------------------------------------------------------------------

def imm_text(v, spelling):
    """spelling: 'hex' | 'dec' | 'neghex' | 'negdec' | 'hex16' (zero-padded to 16 digits)."""
    if spelling == "hex":
        return "0x%x" % (v % (1 << 64)) if v >= 0 else "-0x%x" % (-v)
    if spelling == "dec":
        return "%d" % v
    if spelling == "hex16":
        return "0x%016x" % (v % (1 << 64))
    if spelling == "neghex":
        return "-0x%x" % (-v)
    if spelling == "negdec":
        return "-%d" % (-v)
    raise ValueError(spelling)


def mem_text(kw, base, index, scale, disp, style=""):
    """style flags (string of letters): 's' scale-first factor order, 'd' decimal displacement,
    'x' explicit '*1' when scale is 1."""
    parts = []
    if base:
        parts.append(base)
    if index:
        if scale is not None and (scale != 1 or "x" in style or base is None):
            parts.append(("%d*%s" % (scale, index)) if ("s" in style or base is None) else ("%s*%d" % (index, scale)))
        else:
            parts.append(index)
    s = "+".join(parts)
    if disp is not None:
        mag = abs(disp)
        d = ("%d" % mag) if "d" in style else ("0x%x" % mag)
        if s:
            s += ("-" if disp < 0 else "+") + d
        else:
            s = ("-" if disp < 0 else "") + d
    return ("%s " % kw if kw else "") + "[" + s + "]"


def opd_text(o):
    k = o[0]
    if k == "r":
        return o[1]
    if k == "x":
        return "xmm%d" % o[1]
    if k == "y":
        return "ymm%d" % o[1]
    if k == "mm":
        return "mm%d" % o[1]
    if k == "m":
        return mem_text(o[1], o[3], o[4], o[5], o[6], o[7] if len(o) > 7 else "")
    if k == "i":
        return imm_text(o[1], o[2])
    if k == "rel":
        return (o[3] + " " if len(o) > 3 and o[3] else "") + imm_text(o[1], o[2])
    raise ValueError(o)


def render(mn, ops):
    if not ops:
        return mn
    return mn + " " + ", ".join(opd_text(o) for o in ops)


# --- expected canonical form -------------------------------------------------------------------------------

def exp_mem(o):
    """('m', kw, width, base, index, scale, disp, style) -> ('m', width, addrsize, linear, disp mod 2^asz)"""
    _, kw, width, base, index, scale, disp = o[:7]
    asz = 64
    lin = {}
    for r, c in ((base, 1), (index, scale if scale is not None else 1)):
        if r:
            asz = REGW[r]
            lin[r] = lin.get(r, 0) + c
    d = (disp or 0) % (1 << asz)
    if not lin:
        # [disp]: absolute address; disp32 is sign-extended to 64 bits by the architecture
        d = (disp or 0) % (1 << 64)
    return ("m", width, asz, tuple(sorted(lin.items())), d)


def exp_opd(o, immw=None):
    k = o[0]
    if k in ("r", "x", "y", "mm"):
        return (k, o[1])
    if k == "m":
        return exp_mem(o)
    if k == "i":
        return ("i", o[1], immw)
    if k == "rel":
        return ("rel", o[1])
    raise ValueError(o)


def opd_width(o):
    if o[0] == "r":
        return REGW[o[1]]
    if o[0] == "m":
        return o[2]
    if o[0] == "x":
        return 128
    if o[0] == "y":
        return 256
    if o[0] == "mm":
        return 64
    return None


# --- comparison ---------------------------------------------------------------------------------------------

def _cmp_opd(i, e, d, disc):
    if e[0] == "i":
        if d[0] != "i":
            disc.add("op%d.kind" % i)
            return
        w = e[2] or 64
        if (d[1] - e[1]) % (1 << w):
            disc.add("imm.value")
        return
    if e[0] == "rel":
        if d[0] != "rel":
            disc.add("op%d.kind" % i)
        elif d[1] != e[1]:
            disc.add("rel.disp")
        return
    if e[0] != d[0]:
        if e[0] in ("r", "x", "y", "mm") and d[0] in ("r", "x", "y", "mm"):
            disc.add("op%d.regfile" % i)
        else:
            disc.add("op%d.kind" % i)
        return
    if e[0] == "r":
        if e[1] != d[1]:
            if REGW.get(d[1]) != REGW[e[1]]:
                disc.add("op%d.width" % i)
            if REGN.get(d[1]) != REGN[e[1]] or (d[1] in R8H) != (e[1] in R8H):
                disc.add("op%d.reg" % i)
        return
    if e[0] in ("x", "y", "mm"):
        if e[1] != d[1]:
            disc.add("op%d.reg" % i)
        return
    # memory: e = ('m', width, asz, lin, disp); d = ('m', width, asz, frozenset lin, disp, raw)
    if e[1] is not None and d[1] != e[1]:
        disc.add("op%d.width" % i)
    elin = dict(e[3])
    if not elin:
        # absolute [disp]: objdump prints the sign-extended 64-bit address; address size is irrelevant when
        # the value is representable, compare modulo 2^64 for 64-bit addressing and 2^32 for addr32
        dl = dict(d[3])
        if dl:
            disc.add("op%d.addr" % i)
        elif d[2] == 64 and d[4] % (1 << 64) != e[4] % (1 << 64):
            disc.add("op%d.disp" % i)
        elif d[2] == 32 and d[4] % (1 << 32) != e[4] % (1 << 32):
            disc.add("op%d.disp" % i)
        return
    if d[2] != e[2]:
        disc.add("op%d.addrsize" % i)
    if dict(d[3]) != elin:
        disc.add("op%d.addr" % i)
    if d[4] % (1 << e[2]) != e[4] % (1 << e[2]):
        disc.add("op%d.disp" % i)


def compare(exp_op, exp_ops, dec, flags=()):
    """-> set of discrepancy names (empty = the bytes decode to the instruction written).
    flags: 'commute' (operands 0 and 1 unordered), ('nop', n), 'narrow' (mov r64, imm may be r32 when it fits),
    'nowidth0'... see callers."""
    disc = set()
    if dec.consumed != dec.nbytes or not dec.sync:
        disc.add("length")
    if dec.op == "raw":
        disc.add("undecodable")
        return disc
    for f in flags:
        if isinstance(f, tuple) and f[0] == "nop":
            # one NOP-family instruction of n bytes
            okop = dec.op == "nop" or (dec.op == "xchg" and dec.ops == (("r", "ax"), ("r", "ax")))
            if not okop:
                disc.add("op")
            if dec.nbytes != f[1]:
                disc.add("length")
            return disc
    if canon_op(dec.op) != canon_op(exp_op):
        # xchg rax,rax / xchg ax,ax are the architectural NOP encodings
        if exp_op == "xchg" and dec.op == "nop" and not dec.ops and \
                exp_ops in ((("r", "rax"), ("r", "rax")),):
            return disc
        disc.add("op")
        return disc
    if len(dec.ops) != len(exp_ops):
        disc.add("opcount")
        return disc
    best = None
    orders = [list(exp_ops)]
    if "commute" in flags and len(exp_ops) >= 2:
        sw = list(exp_ops)
        sw[0], sw[1] = sw[1], sw[0]
        orders.append(sw)
    for eo in orders:
        dd = set()
        for i, (e, d) in enumerate(zip(eo, dec.ops)):
            _cmp_opd(i, e, d, dd)
        if best is None or len(dd) < len(best):
            best = dd
    if "narrow" in flags and best:
        # mov r64, v may be emitted as mov r32, v iff 0 <= v < 2^32 (zero extension gives the same value)
        e0, e1 = exp_ops[0], exp_ops[1]
        d0, d1 = dec.ops[0], dec.ops[1]
        if e0[0] == "r" and d0[0] == "r" and REGW[e0[1]] == 64 and REGW.get(d0[1]) == 32 and \
                REGN[d0[1]] == REGN[e0[1]] and d1[0] == "i" and 0 <= e1[1] < (1 << 32) and d1[1] == e1[1]:
            best = set()
    disc |= best
    return disc


def parse_exp(s):
    import ast
    return ast.literal_eval(s)
