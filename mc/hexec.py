"""Driver for the C executor harness/hexec.c: shards histories over processes, returns observations."""
import os
import shutil
import subprocess
import tempfile

from . import build

NPROC = int(os.environ.get("VERIF_JOBS", "16"))
TMPROOT = os.path.join(build.BUILD, "tmp")


def esc(text):
    """Escape a text / path argument (str or bytes) for the hexec line protocol."""
    if isinstance(text, str):
        text = text.encode("latin-1")
    out = []
    for b in text:
        if b == 0x5c:
            out.append("\\\\")
        elif b == 10:
            out.append("\\n")
        elif b == 9:
            out.append("\\t")
        elif b == 13:
            out.append("\\r")
        elif b < 0x20 or b > 0x7e:
            out.append("\\x%02x" % b)
        else:
            out.append(chr(b))
    return "".join(out)


_SIMPLE = None


def esc_fast(text):
    """esc() for str known to be printable ASCII except newlines."""
    if "\\" in text or "\t" in text or "\r" in text:
        return esc(text)
    return text.replace("\n", "\\n")


def tmpdir():
    os.makedirs(TMPROOT, exist_ok=True)
    return tempfile.mkdtemp(prefix="hx%d-" % os.getpid(), dir=TMPROOT)


def run(lines, variant="plain", dangerous=False, timeout=4, nproc=None, env=None, exe=None):
    """lines: list of op strings ('c64:e:cc\\tAnop').  Returns list (aligned) of lists of observation
    strings, e.g. ['c:1', 'A:0:1:0:1:90:1'] or ['CRASH:11:'].  Ids are assigned here."""
    if not lines:
        return []
    exe = exe or build.hexec(variant)
    nproc = nproc or NPROC
    n = len(lines)
    nsh = max(1, min(nproc, (n + 199) // 200))
    d = tmpdir()
    bang = "!" if dangerous else ""
    procs = []
    bounds = []
    e = dict(os.environ)
    e["HEXEC_TMP"] = d
    if variant in ("asan", "msan", "wrapasan"):
        e["HEXEC_SCAN_STDERR"] = "1"
        e["ASAN_OPTIONS"] = "halt_on_error=0:detect_leaks=0:abort_on_error=1:allocator_may_return_null=1"
        e["UBSAN_OPTIONS"] = "halt_on_error=0:print_stacktrace=0"
        e["MSAN_OPTIONS"] = "halt_on_error=0"
    if env:
        e.update(env)
    try:
        for s in range(nsh):
            a, b = s * n // nsh, (s + 1) * n // nsh
            bounds.append((a, b))
            ip = os.path.join(d, "in%d" % s)
            with open(ip, "w", encoding="latin-1") as f:
                f.write("".join("%s%d\t%s\n" % (bang, i, lines[i]) for i in range(a, b)))
            op = open(os.path.join(d, "out%d" % s), "wb")
            procs.append((subprocess.Popen([exe, "-t", str(timeout), ip], stdout=op, stdin=subprocess.DEVNULL,
                                           env=e), op))
        res = [None] * n
        for s, (p, op) in enumerate(procs):
            rc = p.wait()
            op.close()
            if rc != 0:
                raise RuntimeError("hexec shard %d exited %d" % (s, rc))
            a, b = bounds[s]
            with open(os.path.join(d, "out%d" % s), "r", encoding="latin-1", newline="\n") as f:
                seen = {}
                for ln in f:
                    parts = ln.rstrip("\n").split("\t")
                    ident = parts[0].lstrip("!")
                    if not ident.isdigit() or not a <= int(ident) < b:
                        continue
                    k = int(ident)
                    if k in seen:
                        # two result lines for one history: the history damaged the executor itself (e.g. unmapped memory it
                        # does not own); that is a crash of this history, not a protocol error
                        res[k] = ["CRASH:98:executor corrupted by this history (duplicate result line)"]
                    else:
                        seen[k] = True
                        res[k] = parts[1:]
                for k in range(a, b):
                    if res[k] is None:
                        res[k] = ["CRASH:97:no result line (executor corrupted or killed)"]
        return res
    finally:
        for p, op in procs:
            if p.poll() is None:
                p.kill()
        shutil.rmtree(d, ignore_errors=True)


# --- parsing helpers ------------------------------------------------------------------------------

class Asm:
    """Parsed A/N/f/n observation."""
    __slots__ = ("tag", "ret", "off", "lo", "hi", "hex", "canary", "dest", "raw")

    def __init__(self, s):
        self.raw = s
        f = s.split(":")
        self.tag = f[0]
        if len(f) < 7:
            self.ret = None
            self.off = self.lo = self.hi = None
            self.hex = ""
            self.canary = None
            self.dest = None
            return
        self.ret = int(f[1])
        self.off = int(f[2])
        self.lo = int(f[3])
        self.hi = int(f[4])
        # digest form '#len:fnv' contains a colon
        if f[5].startswith("#"):
            self.hex = f[5] + ":" + f[6]
            rest = f[7:]
        else:
            self.hex = f[5]
            rest = f[6:]
        self.canary = int(rest[0]) if rest else None
        self.dest = int(rest[1]) if len(rest) > 1 else None


def is_crash(obs):
    return bool(obs) and obs[-1].startswith("CRASH:")


def san_of(obs):
    for o in obs:
        if o.startswith("SAN:"):
            return o[4:]
    return None


OPT = {"STRICT": 0, "NASM": 1, "SMART": 2}

# the 12 option configurations: (mov_imm, swap, nobase)
CONFIGS = [(m, w, b) for m in ("STRICT", "NASM", "SMART") for w in ("STRICT", "NASM") for b in ("STRICT", "NASM")]
DEFAULT_CFG = ("SMART", "NASM", "NASM")
QUICK_CFGS = [DEFAULT_CFG, ("STRICT", "STRICT", "STRICT"), ("NASM", "NASM", "NASM")]


def cfg_ops(cfg):
    return "m%d\tw%d\tb%d" % (OPT[cfg[0]], OPT[cfg[1]], OPT[cfg[2]])


def single(text, cfg=DEFAULT_CFG, n=256, fill="cc", layout="p"):
    """History for one fresh-instance assembly of text."""
    return "c%d:%s:%s\t%s\tA%s" % (n, layout, fill, cfg_ops(cfg), esc_fast(text))
