"""Binding of the reference model to bytes: GNU objdump as the independent x86-64 decoder (DESIGN 4.3).

decode_many([bytes, ...]) -> [Dec, ...]: every byte string is placed in its own slot followed by 15 one-byte int3 (0xcc),
so that decoding is back in sync at the next slot whatever the slot contains.  The Intel-syntax text is
parsed into the canonical form of DESIGN 4.2; anything not recognised becomes op 'raw', which compares
unequal to every expectation.
"""
import os
import re
import subprocess
from concurrent.futures import ThreadPoolExecutor

from . import build
from .hexec import tmpdir

PAD = 15
SIZES = {"BYTE": 8, "WORD": 16, "DWORD": 32, "QWORD": 64, "XMMWORD": 128, "YMMWORD": 256, "FWORD": 48,
         "TBYTE": 80, "OWORD": 128, "ZMMWORD": 512}

R64 = ["rax", "rcx", "rdx", "rbx", "rsp", "rbp", "rsi", "rdi"] + ["r%d" % i for i in range(8, 16)]
R32 = ["eax", "ecx", "edx", "ebx", "esp", "ebp", "esi", "edi"] + ["r%dd" % i for i in range(8, 16)]
R16 = ["ax", "cx", "dx", "bx", "sp", "bp", "si", "di"] + ["r%dw" % i for i in range(8, 16)]
R8 = ["al", "cl", "dl", "bl", "spl", "bpl", "sil", "dil"] + ["r%db" % i for i in range(8, 16)]
R8H = ["ah", "ch", "dh", "bh"]
REGW = {}
REGN = {}
for _w, _l in ((64, R64), (32, R32), (16, R16), (8, R8)):
    for _i, _n in enumerate(_l):
        REGW[_n] = _w
        REGN[_n] = _i
for _i, _n in enumerate(R8H):
    REGW[_n] = 8
    REGN[_n] = 4 + _i  # encoding number without REX
PREFIX_TOKENS = {"data16", "addr32", "rex", "repz", "repnz", "rep", "lock", "cs", "ds", "es", "ss", "fs", "gs",
                 "notrack", "bnd", "xacquire", "xrelease"}

# condition-code synonyms -> canonical condition number
_CC = {"o": 0, "no": 1, "b": 2, "c": 2, "nae": 2, "ae": 3, "nb": 3, "nc": 3, "e": 4, "z": 4, "ne": 5, "nz": 5,
       "be": 6, "na": 6, "a": 7, "nbe": 7, "s": 8, "ns": 9, "p": 10, "pe": 10, "np": 11, "po": 11,
       "l": 12, "nge": 12, "ge": 13, "nl": 13, "le": 14, "ng": 14, "g": 15, "nle": 15}


def canon_op(mn):
    """Operation name with synonyms collapsed (both the written and the decoded mnemonic go through this)."""
    if mn == "movabs":
        return "mov"
    if mn == "sal":
        return "shl"
    if mn in ("retq", "ret"):
        return "ret"
    for pre in ("cmov", "set", "j"):
        if mn.startswith(pre) and mn[len(pre):] in _CC and mn not in ("jmp",):
            return "%s#%d" % (pre, _CC[mn[len(pre):]])
    return mn


class Dec:
    __slots__ = ("nbytes", "consumed", "prefixes", "op", "ops", "text", "sync")

    def __init__(self):
        self.nbytes = 0       # bytes submitted
        self.consumed = 0     # length of the first decoded instruction
        self.prefixes = ()
        self.op = "raw"
        self.ops = ()
        self.text = ""
        self.sync = False     # True iff the instruction following the first one starts at slot+nbytes

    def __repr__(self):
        return "Dec(%r len=%d/%d)" % (self.text, self.consumed, self.nbytes)


_num = re.compile(r"^(0x[0-9a-f]+|[0-9]+)$")
_term = re.compile(r"^([a-z0-9]+)(?:\*([1248]))?$")


def parse_mem(inner, seg_abs=None):
    """'[rax+rcx*2-0x10]' inner text -> (addrsize, linear dict, disp, raw triple) or None."""
    base = index = None
    scale = 1
    disp = 0
    lin = {}
    asz = None
    # split into signed terms
    toks = re.findall(r"([+-]?)([^+-]+)", inner)
    for sign, t in toks:
        t = t.strip()
        if _num.match(t):
            v = int(t, 0)
            disp += -v if sign == "-" else v
            continue
        m = _term.match(t)
        if not m or sign == "-":
            return None
        r, sc = m.group(1), m.group(2)
        if r in ("riz", "eiz"):
            asz = asz or (64 if r == "riz" else 32)
            continue
        if r == "rip" or r == "eip":
            lin[r] = lin.get(r, 0) + 1
            asz = 64 if r == "rip" else 32
            base = r
            continue
        if r not in REGW or REGW[r] not in (32, 64):
            return None
        if asz and asz != REGW[r]:
            return None
        asz = REGW[r]
        if sc is not None:
            index, scale = r, int(sc)
            lin[r] = lin.get(r, 0) + int(sc)
        else:
            if base is None:
                base = r
            else:
                index, scale = r, 1
            lin[r] = lin.get(r, 0) + 1
    return asz, lin, disp, (base, index, scale)


def parse_operand(s, addr32):
    s = s.strip()
    if s in REGW:
        return ("r", s)
    m = re.match(r"^(xmm|ymm|mm)(\d+)$", s)
    if m:
        return ({"xmm": "x", "ymm": "y", "mm": "mm"}[m.group(1)], int(m.group(2)))
    if _num.match(s):
        return ("i", int(s, 0))
    width = None
    m = re.match(r"^([A-Z]+) PTR (.*)$", s)
    if m:
        if m.group(1) not in SIZES:
            return None
        width = SIZES[m.group(1)]
        s = m.group(2).strip()
    m = re.match(r"^(?:([c-gs]s):)?\[(.*)\]$", s)
    if m:
        pm = parse_mem(m.group(2))
        if pm is None:
            return None
        asz, lin, disp, raw = pm
        if asz is None:
            asz = 32 if addr32 else 64
        return ("m", width, asz, frozenset(lin.items()), disp % (1 << asz), raw)
    m = re.match(r"^([c-gs]s):(0x[0-9a-f]+)$", s)
    if m:
        asz = 32 if addr32 else 64
        # objdump prints an absolute disp32 sign-extended to 64 bits
        return ("m", width, asz, frozenset(), int(m.group(2), 0) % (1 << asz), (None, None, 1))
    return None


def parse_line(text, addr, length):
    """text: 'mov    rax,QWORD PTR [rcx]'; returns (prefixes, op, ops) with op 'raw' when not understood."""
    t = text.split("#")[0].strip()
    t = re.sub(r"\s*<[^>]*>", "", t)
    toks = t.split()
    pref = []
    while toks and (toks[0] in PREFIX_TOKENS or toks[0].startswith("rex.")):
        pref.append(toks.pop(0))
    if not toks:
        return tuple(pref), "raw", (t,)
    mn = toks[0]
    rest = t.split(None, len(pref) + 1)
    opstr = rest[len(pref) + 1] if len(rest) > len(pref) + 1 else ""
    if mn == "(bad)" or mn.startswith("."):
        return tuple(pref), "raw", (t,)
    addr32 = "addr32" in pref
    ops = []
    if opstr:
        for part in opstr.split(","):
            o = parse_operand(part, addr32)
            if o is None:
                return tuple(pref), "raw", (t,)
            ops.append(o)
    # branch targets -> displacement
    if (mn in ("jmp", "call", "jrcxz", "jecxz", "xbegin", "loop") or (mn.startswith("j") and mn[1:] in _CC)) \
            and len(ops) == 1 and ops[0][0] == "i":
        target = ops[0][1]
        d = (target - (addr + length)) % (1 << 64)
        if d >= 1 << 63:
            d -= 1 << 64
        ops = [("rel", d)]
    return tuple(pref), mn, tuple(ops)


_line = re.compile(r"^\s*([0-9a-f]+):\t([0-9a-f ]+?)\s*\t(.*)$")
_line_nobody = re.compile(r"^\s*([0-9a-f]+):\t([0-9a-f ]+?)\s*$")


def _objdump_file(path, starts):
    """starts: dict start address -> (index, nbytes).  Returns {index: Dec}."""
    p = subprocess.run(["objdump", "-D", "-b", "binary", "-mi386:x86-64", "-M", "intel", "-w", path],
                       stdout=subprocess.PIPE, stderr=subprocess.PIPE)
    if p.returncode != 0:
        raise RuntimeError("objdump failed: %s" % p.stderr.decode()[:300])
    out = {}
    want_next = None  # (Dec, expected next address)
    for ln in p.stdout.decode("latin-1").split("\n"):
        if want_next is None and ln.endswith("\tint3"):
            continue   # padding (the library never emits int3)
        if ":\t" not in ln:
            continue
        head, _, tail = ln.partition(":\t")
        try:
            addr = int(head, 16)
        except ValueError:
            continue
        if want_next is not None:
            d, exp = want_next
            d.sync = (addr == exp)
            want_next = None
        ent = starts.get(addr)
        if ent is None:
            continue
        idx, nb = ent
        bytes_s, _, text = tail.partition("\t")
        d = Dec()
        d.nbytes = nb
        d.consumed = len(bytes_s.split())
        d.text = text.strip()
        if text:
            d.prefixes, d.op, d.ops = parse_line(text, addr, d.consumed)
        out[idx] = d
        want_next = (d, addr + nb)
    return out


def _objdump_job(j):
    return _objdump_file(*j)


def decode_many(blobs, nproc=16):
    """blobs: list of bytes objects (distinct or not).  Returns list of Dec aligned with blobs."""
    n = len(blobs)
    if n == 0:
        return []
    d = tmpdir()
    try:
        nsh = max(1, min(nproc, (n + 999) // 1000))
        jobs = []
        for s in range(nsh):
            a, b = s * n // nsh, (s + 1) * n // nsh
            path = os.path.join(d, "slots%d.bin" % s)
            starts = {}
            pos = 0
            chunks = []
            for i in range(a, b):
                bl = blobs[i]
                starts[pos] = (i, len(bl))
                chunks.append(bl)
                chunks.append(b"\xcc" * PAD)
                pos += len(bl) + PAD
            chunks.append(b"\xcc" * 4)
            with open(path, "wb") as f:
                f.write(b"".join(chunks))
            jobs.append((path, starts))
        res = [None] * n
        if nsh == 1:
            parts = [_objdump_file(*jobs[0])]
        else:
            with ThreadPoolExecutor(max_workers=nsh) as ex:
                parts = list(ex.map(_objdump_job, jobs))
        if True:
            for part in parts:
                for i, dec in part.items():
                    res[i] = dec
        for i in range(n):
            if res[i] is None:
                dd = Dec()
                dd.nbytes = len(blobs[i])
                dd.text = "(no decode at slot start)"
                res[i] = dd
            if len(blobs[i]) == 0:
                res[i].op = "raw"
        return res
    finally:
        import shutil
        shutil.rmtree(d, ignore_errors=True)


def decode_all(blobs):
    """Full linear decode of each blob: -> list of (tiles_exactly, [(length, mnemonic, text), ...])."""
    n = len(blobs)
    if n == 0:
        return []
    d = tmpdir()
    try:
        path = os.path.join(d, "seq.bin")
        starts = []
        pos = 0
        chunks = []
        for bl in blobs:
            starts.append(pos)
            chunks.append(bl)
            chunks.append(b"\xcc" * PAD)
            pos += len(bl) + PAD
        with open(path, "wb") as f:
            f.write(b"".join(chunks))
        p = subprocess.run(["objdump", "-D", "-b", "binary", "-mi386:x86-64", "-M", "intel", "-w", path],
                           stdout=subprocess.PIPE, stderr=subprocess.PIPE)
        if p.returncode != 0:
            raise RuntimeError("objdump failed")
        lines = []
        for ln in p.stdout.decode("latin-1").split("\n"):
            head, sep, tail = ln.partition(":\t")
            if not sep:
                continue
            try:
                addr = int(head, 16)
            except ValueError:
                continue
            bs, _, text = tail.partition("\t")
            lines.append((addr, len(bs.split()), text.strip()))
        import bisect
        addrs = [a for a, _, _ in lines]
        out = []
        for st, bl in zip(starts, blobs):
            end = st + len(bl)
            i = bisect.bisect_left(addrs, st)
            seq = []
            ok = i < len(lines) and lines[i][0] == st
            cur = st
            while ok and cur < end and i < len(lines):
                a, ln_, text = lines[i]
                if a != cur:
                    ok = False
                    break
                toks = text.split()
                while toks and (toks[0] in PREFIX_TOKENS or toks[0].startswith("rex.")):
                    toks.pop(0)
                seq.append((ln_, toks[0] if toks else "", text))
                cur += ln_
                i += 1
            out.append((ok and cur == end, seq))
        return out
    finally:
        import shutil
        shutil.rmtree(d, ignore_errors=True)


if __name__ == "__main__":
    import sys
    bl = [bytes.fromhex(x) for x in sys.argv[1:]]
    for b, d in zip(bl, decode_many(bl)):
        print(b.hex(), d, d.prefixes, d.op, d.ops, d.sync)
