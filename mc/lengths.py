"""Lines of known emitted length (harvested at run time from a candidate list, so that an edited tree is followed)."""
from . import hexec

CANDIDATES = [
    "ret", "clc", "mov eax, ecx", "mov rax, rcx", "add rax, 0x10", "mov eax, 0x12345678", "add ecx, 0x12345678",
    "add rcx, 0x12345678", "mov rax, [rsp+rcx*2+0x12345678]", "vpaddd ymm1, ymm10, [rsp+rcx*2+0x12345678]",
    "mov rax, 0x1122334455667788", "mov dword [rsp+rcx*2+0x12345678], 0x11223344",
    "mov qword [rsp+rcx*2+0x12345678], 0x11223344", "imul r9, [r8+r10*2+0x12345678], 0x11223344",
    "add qword [r8d+r9d*2+0x12345678], 0x11223344", "vperm2i128 ymm1, ymm2, [r8d+r9d*2+0x12345678], 0x1",
    "mov word [r8d+r9d*2+0x12345678], 0x1122", "lea rax, [rcx+0x10]", "push rax", "vpaddd ymm8, ymm9, ymm10",
    "shld rax, rcx, 0x5", "movq xmm9, [r8+r9*4+0x10]", "bextr r9, [r8+r10*2+0x12345678], r11",
]


def by_length(cfg=hexec.DEFAULT_CFG):
    """-> {length: (line, hex)} one line per emitted length (first candidate that gives it)."""
    res = hexec.run([hexec.single(t, cfg) for t in CANDIDATES])
    out = {}
    for t, o in zip(CANDIDATES, res):
        if hexec.is_crash(o):
            continue
        a = hexec.Asm(o[-1])
        if a.ret == 0 and a.off > 0 and a.off not in out:
            out[a.off] = (t, a.hex[:2 * a.off])
    return dict(sorted(out.items()))


if __name__ == "__main__":
    for k, v in by_length().items():
        print(k, v)
