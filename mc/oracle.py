"""Validation of the oracle chain itself (DESIGN 4.4): model -> renderer -> objdump parser is checked against
nasm, without involving the library.  For every case whose text nasm accepts, nasm's bytes are decoded by the
same decoder and must canonicalise to the same expected form.  A case failing this is not used for a verdict."""
import hashlib
import json
import os
import re
import shutil
import subprocess

from . import build, isa
from .decode import decode_many
from .hexec import tmpdir

_lst = re.compile(r"^\s*(\d+) ([0-9A-F]{8}) ([0-9A-F]+)(-?)\s")
_err = re.compile(r":(\d+): error")


def nasm_bytes(texts, prologue="bits 64\n", opt="-O0"):
    """-> list aligned with texts: bytes or None (nasm rejects the line)."""
    d = tmpdir()
    try:
        bad = set()
        res = [None] * len(texts)
        for attempt in range(3):
            src = os.path.join(d, "t.asm")
            with open(src, "w") as f:
                f.write(prologue)
                for i, t in enumerate(texts):
                    f.write("nop\n" if i in bad else t + "\n")
            p = subprocess.run(["nasm", "-f", "bin", opt, "-w-all", "-l", os.path.join(d, "t.lst"), "-o",
                                os.path.join(d, "t.bin"), src], stdout=subprocess.PIPE, stderr=subprocess.PIPE, text=True)
            if p.returncode == 0:
                break
            newbad = {int(m.group(1)) - 2 for m in _err.finditer(p.stderr)}
            if not newbad - bad:
                raise RuntimeError("nasm failed: " + p.stderr[:500])
            bad |= newbad
        else:
            raise RuntimeError("nasm did not converge")
        cur = {}
        with open(os.path.join(d, "t.lst")) as f:
            for ln in f:
                m = _lst.match(ln)
                if m:
                    k = int(m.group(1)) - 2
                    cur[k] = cur.get(k, "") + m.group(3)
        for k, hx in cur.items():
            if 0 <= k < len(texts) and k not in bad:
                res[k] = bytes.fromhex(hx)
        return res
    finally:
        shutil.rmtree(d, ignore_errors=True)


def nasm_text(case):
    """Text to give nasm for a case (None = library dialect, nasm is no reference)."""
    return case.attrs.get("nasm_text", case.text) if not case.attrs.get("hand") else None


def validate(cases, tag):
    """-> (set of indices of cases whose expectation nasm does not confirm, stats dict).  Cached on content."""
    h = hashlib.sha256()
    for fn in ("isa.py", "decode.py", "e1.py", "oracle.py"):
        h.update(open(os.path.join(build.VERIF, "mc", fn), "rb").read())
    for c in cases:
        h.update(c.text.encode())
        h.update(str(c.attrs.get("nasm_text", "")).encode() + (b"H" if c.attrs.get("hand") else b""))
        h.update(repr((c.op, c.ops, c.flags)).encode())
    key = h.hexdigest()[:20]
    cdir = os.path.join(build.BUILD, "oracle-cache")
    cpath = os.path.join(cdir, "%s-%s.json" % (tag, key))
    if os.path.exists(cpath):
        with open(cpath) as f:
            j = json.load(f)
        return set(j["bad"]), j["stats"]
    idx = [i for i, c in enumerate(cases) if nasm_text(c) is not None]
    nb = nasm_bytes([nasm_text(cases[i]) for i in idx])
    have = [(i, b) for i, b in zip(idx, nb) if b]
    rejected = [i for i, b in zip(idx, nb) if not b]
    decs = decode_many([b for _, b in have])
    bad = []
    samples = []
    for (i, b), d in zip(have, decs):
        c = cases[i]
        disc = isa.compare(c.op, c.ops, d, c.flags)
        if disc:
            bad.append(i)
            if len(samples) < 12:
                samples.append({"text": c.text, "nasm": b.hex(), "decoded": d.text, "disc": sorted(disc)})
    for i in rejected:
        bad.append(i)
        if len(samples) < 12:
            samples.append({"text": cases[i].text, "nasm": "rejected"})
    stats = {"cases": len(cases), "nasm_confirmed": len(have) - (len(bad) - len(rejected)),
             "hand_checked_dialect": len(cases) - len(idx), "nasm_rejected": len(rejected),
             "oracle_unvalidated": len(bad), "unvalidated_samples": samples}
    os.makedirs(cdir, exist_ok=True)
    with open(cpath + ".tmp", "w") as f:
        json.dump({"bad": bad, "stats": stats}, f)
    os.replace(cpath + ".tmp", cpath)
    # keep the cache small
    ent = sorted((os.path.getmtime(os.path.join(cdir, x)), x) for x in os.listdir(cdir))
    for _, x in ent[:-200]:
        os.remove(os.path.join(cdir, x))
    return set(bad), stats
