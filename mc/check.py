"""Entry point: python3 -m mc.check <ID> [--tier quick|thorough] [--replay file]"""
import argparse
import importlib
import json
import os
import sys
import traceback


def main():
    ap = argparse.ArgumentParser()
    ap.add_argument("prop")
    ap.add_argument("--tier", default=os.environ.get("VERIF_TIER", "quick"), choices=["quick", "thorough"])
    ap.add_argument("--replay")
    a = ap.parse_args()
    seed = int(os.environ.get("VERIF_SEED", "0") or 0)
    sys.stdout.reconfigure(line_buffering=True)
    mod = importlib.import_module("mc.props.%s" % a.prop.lower())
    if a.replay:
        with open(a.replay) as f:
            body = json.load(f)
        still = mod.replay(body["replay"], verbose=True)
        print("replay %s: %s" % (a.replay, "STILL FAILS" if still else "passes"))
        if still:
            print("VIOLATION property=%s replay=%s" % (a.prop.upper(), a.replay))
        return 1 if still else 0
    return mod.run(a.tier, seed)


if __name__ == "__main__":
    try:
        rc = main()
    except SystemExit:
        raise
    except BaseException:
        traceback.print_exc()
        rc = 2
    sys.exit(rc)
