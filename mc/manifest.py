"""Regenerates /verif/MANIFEST.json from the table below (python3 -m mc.manifest) and validates it."""
import json
import os
import sys

from .build import VERIF

E1_NOTE = ("trusts GNU objdump as the meaning of bytes and mc/isa.py (written from the SDM, no opcodes) as the meaning "
           "of text; every expectation is first confirmed against nasm+objdump without the library (unconfirmed cases "
           "are counted, not judged); register/form spaces are enumerated completely, values by boundary classes")

BUILT = {
    "C01": ("model_checking",
            "bounded-exhaustive input-shape enumeration on the real assembler (every register tuple of every "
            "register-only form, every option configuration), each output decoded by objdump and compared with a "
            "reference ISA model",
            "the complete register-tuple space of every register-only general-purpose form is executed on fresh "
            "instances under 3 (quick) / 12 (thorough) option configurations; decode must equal what was written",
            E1_NOTE, "DESIGN.md section 6, C01"),
    # id: (category, technique, level text, level note, design ref)
    "C02": ("model_checking",
            "bounded-exhaustive enumeration of address shapes (base x index x scale x displacement class x factor order x "
            "size keyword) under one representative per encoding path and every memory-taking mnemonic, 4 SIB "
            "configurations, on the real assembler; decoded linear address form compared with the written one",
            "quick: a 3.6k-shape class grid x 42 representative forms + every mnemonic over key shapes (0.6M executions); "
            "thorough: the full 33x33 register grid x 5 scales x 19 displacements (6M lines, 24M executions); ModRM/SIB/"
            "displacement/address-size/access-width are compared as linear forms so that only address-preserving "
            "rewritings are accepted",
            E1_NOTE, "DESIGN.md section 6, C02"),
    "C03": ("model_checking",
            "bounded-exhaustive enumeration of immediate forms x destination kinds x boundary values x spellings x 3 "
            "mov-immediate modes on the real assembler, decode-and-compare; plus execution of `mov r, v; ret` for every "
            "64-bit value of the alphabet",
            "every immediate-taking form is executed with every representable value of a boundary alphabet (all byte-length "
            "and sign boundaries, their negatives, seed extras); the decoded immediate must equal the written value modulo "
            "the operand size and the instruction must have a legal length; generated mov/ret code is called and must "
            "return v",
            E1_NOTE + "; code is executed only after its decode check, in a child process",
            "DESIGN.md section 6, C03"),
    "C04": ("model_checking",
            "bounded-exhaustive input-shape enumeration on the real assembler (all xmm/ymm/mm/BMI2 register tuples, "
            "every memory form over key address shapes), decoded by objdump and compared with a reference ISA model",
            "the complete register-tuple space of every vector/VEX/BMI2/ADX form (340k lines) is executed on fresh "
            "instances; prefixes, map, L, W, vvvv and R/X/B are checked through the decoded operation, registers, "
            "operand size and vector length",
            E1_NOTE, "DESIGN.md section 6, C04"),
    "C05": ("model_checking",
            "bounded-exhaustive enumeration of displacement values (every d in -129..128, the 2^15/2^31/2^32 "
            "neighbourhoods) x mnemonics x keywords x spellings on the real assembler; decode-and-compare, must-reject "
            "set from the property statement",
            "every relative-branch mnemonic x keyword x displacement of the alphabet is executed; accepted lines must "
            "decode to the same operation with field = d, lines that could only wrap must be rejected and emit nothing; "
            "indirect near/far forms over all registers and key address shapes",
            E1_NOTE + "; a displacement written as 0x80000000..0xffffffff is read modulo 2^32 (lenient)",
            "DESIGN.md section 6, C05"),
    "C06": ("model_checking",
            "exhaustive enumeration of programs (all ordered pairs of a ~200-line set, all triples of a core, all "
            "k-line programs over a small core) x ALL 2^(k-1) call splits x start offsets x buffer fills, and every line of "
            "the 11k-line per-form corpus directly before and after each of ~65 state-sensitive lines; executed on the "
            "real API and compared with the concatenation of single-line runs; long programs across buffer growth",
            "relational (byte equality between runs of the implementation), immune to encoding defects; quick 1.45M / "
            "thorough 5M+ programs",
            "the single-line output of each line under the same options is the reference; lines that do not assemble "
            "alone are dropped from the line set (listed in the evidence)", "DESIGN.md section 6, C06"),
    "C07": ("model_checking",
            "exhaustive call-history enumeration (depth <= 3 for every buffer length 0..32/48, depth 4 for selected "
            "lengths) over the real API on guard-page buffers, one forked child per history, lockstep with a reference "
            "model of the documented 20-byte reserve",
            "every history over a 20-operation menu (offsets around n-20, chunk sizes, plain and counting assembles of "
            "short/long/multi-line/rejected texts) is executed in two guard-page layouts; a write outside the buffer "
            "faults or breaks a canary, return values and offsets must equal the model",
            "guard pages, canaries and a before/after snapshot make out-of-range writes observable; asm_set_offset only "
            "with 0<=k<=n", "DESIGN.md section 6, C07"),
    "C13": ("model_checking",
            "exhaustive enumeration of (chunk size, start position, instruction length) triples, short sequences, "
            "on/off/resize switching histories (with counting calls in between) and every instruction FORM of the per-form "
            "corpus at the phases that decide padding, under three option sets, on the real API (ASan build), lockstep with "
            "a placement model; padding decoded by objdump",
            "every (c, p, l) for c in 2..40,64,(4096), every length the library emits (1..14); sequences <= 3 (thorough: all "
            "pairs over all lengths, 4-sequences) over 7 lengths; 11k forms x 3 chunk sizes x 5 phases; invariant 'no instruction shorter than c straddles' evaluated on the output itself",
            "objdump decides what a NOP is; instruction lengths harvested from the current tree",
            "DESIGN.md section 6, C13"),
    "C14": ("model_checking",
            "exhaustive enumeration of (chunk size, start, length) triples, sequences <= 3/4, repeated-call histories over "
            "power-of-two and other chunk sizes, the file entry point, and chunk sizes around the length of a growing "
            "library-managed buffer, on the real counting API, lockstep with a counting model",
            "bytes must equal plain assembly and *dest the number of boundary-crossing instructions of this call only; "
            "c < 2 gives 0",
            "fitting never enabled (precondition of the statement)", "DESIGN.md section 6, C14"),
    "C15": ("model_checking",
            "exhaustive call-history enumeration (all histories of depth <= 3/4 over 20 operations incl. file entry points on "
            "readable and missing files x 14 probes) on the real "
            "API (ASan build, one forked child per history) with a differential oracle: the same probe on a fresh "
            "instance carrying only the user-visible settings",
            "every history including failed calls, counting calls, second instances created/destroyed/used; the probe "
            "after asm_set_offset must give the same return value, offset, bytes and count as on a fresh instance",
            "user-visible settings = last value per option dimension + last asm_set_chunk_size",
            "DESIGN.md section 6, C15"),
    "C08": ("model_checking",
            "exhaustive enumeration of program lengths around every growth threshold x call splittings x assemble modes x "
            "{natural, forced-move} mremap on the real API (libc interposed with -Wl,--wrap), compared step by step with the "
            "same calls on a large caller buffer; generated code is executed",
            "every total length within +-40 bytes of 1x/2x/3x the growth quantum and a lattice of other lengths; one call, "
            "two calls split at every line near each threshold, one call per line near it; plain / fitting / counting; "
            "the mapping is also forced to move on every growth so that a stale pointer faults",
            "mremap is made to move via MREMAP_FIXED (legal under MREMAP_MAYMOVE); code runs in a child after the byte "
            "comparison", "DESIGN.md section 6, C08"),
    "C09": ("model_checking",
            "exhaustive enumeration of input strings (all byte strings <= 2, all strings <= 5/6 over a structural alphabet, "
            "all token sequences <= 4/5, all mnemonic x operand-menu lines, every length around each fixed parser array, and "
            "every well-formed line of the per-form corpus and every address shape of the C02 grid) "
            "executed in-process on ASan+UBSan and MemorySanitizer builds of the real parser under 7 settings, with worker "
            "restart behind every aborting / faulting / hanging input",
            "quick 25M / thorough 600M executions; any sanitizer report, fatal signal, return value other than 0/1 or a "
            "20 s hang is a violation attributed to the exact input",
            "sanitizers see what gcc 12 / clang 14 instrument at -O1; strings beyond the stated bounds are not covered",
            "DESIGN.md section 6, C09"),
    "C10": ("model_checking",
            "bounded-exhaustive enumeration of malformed inputs on the real assembler: every named mnemonic x all 781 "
            "operand-kind tuples, every single-character mutation of register names in 5 positions, invalid scales, "
            "stack-pointer index placements, bracket / empty-operand / after-immediate forms, every byte 0x7f-0xff at every "
            "position of 12 lines, each at several program positions; must-reject set from a kind-level ISA table",
            "every must-reject line has to return EXIT_FAILURE and leave the buffer untouched from the line's start on; "
            "tuples x86-64 defines but the library does not support carry no demand (counted)",
            "the must-reject table (mc/props/c10.py) is the kind-level projection of the Intel SDM; a token starting with a "
            "digit is a number, not a misspelt register", "DESIGN.md section 6, C10"),
    "C11": ("model_checking",
            "bounded-exhaustive enumeration over all 12 option combinations on the real assembler: (i) mov r64, imm for 16 "
            "registers x value alphabet x spellings with decode rules per mode and nasm cross-check, (ii) all stack-pointer-"
            "index and no-base shapes with literal-encoding / address rules, (iii) byte equality of every other corpus line "
            "under all 12 combinations",
            "the option state space (12) x the complete line sets is executed; narrowing happens exactly when documented, "
            "SIB rewritings only under their option, everything else is byte-identical under all options",
            E1_NOTE + "; nasm -Ox is the reference for 'as nasm does'", "DESIGN.md section 6, C11"),
    "C16": ("model_checking",
            "bounded-exhaustive enumeration of spelling rewritings (each of 13 alone, 10 line wrappers, all pairs, all "
            "together; thorough: all 2^10 combinations and every insertion position of non-code lines) over one line per "
            "operand-class pattern of the corpora, on the real assembler; byte equality with the base spelling",
            "relational (two runs of the implementation), immune to encoding defects; mov r64, imm lines run in NASM and "
            "STRICT mov-immediate modes only (the documented SMART exception is C11's)",
            "rewritings are applied to lines rendered by the check itself (known token structure); tabs only next to an "
            "existing separator", "DESIGN.md section 6, C16"),
    "C17": ("fault_enumeration",
            "exhaustive fault enumeration: every single (quick) and every ordered pair (thorough) of refused libc calls "
            "(malloc mmap mremap munmap open fstat close fopen fwrite fclose, interposed with -Wl,--wrap) along 13 API "
            "scenarios (caller buffer, growth, growth with retry / under fitting / from the file entry point / in a counting "
            "call, file assembly, empty file, binary output once, twice and of 200 kB), each run in a forked child",
            "each library-side libc call of each scenario is refused in turn (and in pairs, including calls that only "
            "appear on error paths), plus short-write variants of fwrite; the API call in progress must return its "
            "documented failure value, earlier code must stay intact, the instance destroyable, and asm_create_bin_file may "
            "report success only if the file holds exactly code[0, offset)",
            "a refusal is NULL / MAP_FAILED / -1 / short count with errno set; for refused munmap/close/fclose only survival "
            "is demanded", "DESIGN.md section 6, C17"),
    "C18": ("model_checking",
            "stateless model checking of the real code: pre-emption-bounded exhaustive schedule enumeration (CHESS-style, "
            "depth-first over deviation sets) of 2-4 real pthreads under a cooperative scheduler, scheduling points injected "
            "by compiler instrumentation: -finstrument-functions (function entry/exit) and -fsanitize=thread at compile time "
            "only, with the __tsan_* entry points implemented by the scheduler (every atomic operation, every load/store of "
            "writable global data), plus wrapped mmap/munmap/mremap/pthread_once/mutex calls; three thread bodies incl. one "
            "with buffer growth, destroy and re-create; plus a separate free-running ThreadSanitizer pass of the same bodies",
            "every schedule with <= 2 pre-emptions at function granularity and <= 3 (quick) / <= 4 (thorough) at "
            "shared-access granularity for 2 threads, <= 2/3 for 3 threads, <= 2 for 4 threads is executed in a fresh "
            "process; each thread's results must equal its single-threaded reference; TSan must stay silent",
            "sequentially consistent interleavings at the instrumented points; weaker memory orderings are not modelled; "
            "heap objects reachable from a global pointer are visible at the pointer access only",
            "DESIGN.md section 6, C18"),
    "C19": ("model_checking",
            "exhaustive enumeration of file sizes (0..64 and +-8 around 1, 2, 3 pages) x 4 endings x both file entry points "
            "on the real API with text buffers placed flush against a PROT_NONE page, compared with the string entry points "
            "on the same contents, on fresh and on configured instances, and as two (11x11 sizes) and three (7x7x7 sizes) "
            "successive file calls on one instance; bad paths and permissions; binary output at 6 offsets read back, over an "
            "existing file and twice",
            "return value, offset, bytes and count of asm_assemble_file / _counting_chunks must equal those of the string "
            "calls; a read past the end of the text faults deterministically",
            "file contents are valid programs of nop / comment filler; permission cases run under uid 65534 when the "
            "scratch directory is reachable for it", "DESIGN.md section 6, C19"),
    "C20": ("model_checking",
            "exhaustive enumeration of asmline invocations (programs x mode-flag sets x outputs x source) as real processes, "
            "each compared with the same program through the library API under the setter calls the flag documents; programs "
            "of every line count 1..260 (thorough ..600) and around 512..4096 through -P and -b from stdin and FILE",
            "quick 2.8k / thorough 22k process runs: binary files, -p hex (chunk rows), -b count, -r value and exit status "
            "must reflect the library result; stdin must equal FILE",
            "two flags of one option dimension are combined only in the orders whose meaning does not depend on how 'is "
            "equivalent to' is read (umbrella first, or same rank); -r programs end in ret",
            "DESIGN.md section 6, C20"),
    "C12": ("model_checking",
            "explicit-state BFS over the real setter API to a fixpoint, lockstep with a documentation model; plus all "
            "setter sequences up to depth 3/4, all two-instance interleavings up to depth 2/3, and a successor instance "
            "after an instance destroyed in each of the 12 states (both buffer kinds on both sides), exhaustively",
            "every reachable option state (12) x every transition (20) of the real implementation is executed and "
            "compared with the documented semantics; deduplication is cross-checked by unreduced enumeration",
            "trusts the documented probe-line byte patterns (header comments / README) as the meaning of each option "
            "state; out-of-range enum values represented by 99",
            "DESIGN.md section 6, C12"),
}

PENDING_REASON = "check not built yet (work in progress; see DESIGN.md section 6)"


def main():
    props = [json.loads(l) for l in open(os.path.join(VERIF, "properties.jsonl"))]
    checks = []
    na = []
    for p in props:
        i = p["id"]
        if i in BUILT:
            cat, tech, text, note, ref = BUILT[i]
            checks.append({
                "property_id": i,
                "quick_cmd": "bin/check %s --tier quick" % i,
                "thorough_cmd": "bin/check %s --tier thorough" % i,
                "evidence_file": "evidence/%s.json" % i,
                "replay_cmd_template": "bin/check %s --replay {path}" % i,
                "engine": "mc",
                "level_claimed": {"category": cat, "text": text, "design_ref": ref},
                "level_note": note,
                "technique": tech,
            })
        else:
            na.append({"property_id": i, "reason": PENDING_REASON})
    m = {
        "version": 1,
        "setup_cmd": "bin/setup",
        "hooks": {
            "guard": "ASSEMBLYLINE_VERIF",
            "enable": "no source hooks are needed: checks compile /repo/src/*.c themselves (mc/build.py) and reach "
                      "scheduling points, libc answers and sanitizers through build flags, -include shims and "
                      "-Wl,--wrap; the guard name is reserved",
            "baseline_off_cmd": "bin/baseline",
            "source_commits": [],
            "add_only": True,
        },
        "engines": [{"name": "mc", "path": "mc/", "serves_properties": sorted(BUILT),
                     "kind_free_text": "bounded exhaustive exploration of the real code through one C executor "
                                       "(harness/hexec.c) with Python reference models stepped in lockstep"}],
        "checks": checks,
        "not_applicable": na,
        "notes": "All checks rebuild from /repo's working tree (content-hashed cache in /verif/build). "
                 "Known findings: known_findings.json / known_findings.txt.",
    }
    if not na:
        del m["not_applicable"]
    with open(os.path.join(VERIF, "MANIFEST.json"), "w") as f:
        json.dump(m, f, indent=1)
    try:
        import jsonschema
        jsonschema.validate(m, json.load(open("/root/.vp/MANIFEST.schema.json")))
        print("MANIFEST.json valid: %d checks, %d pending" % (len(checks), len(na)))
    except ImportError:
        print("MANIFEST.json written (jsonschema not available to validate)")


if __name__ == "__main__":
    main()
