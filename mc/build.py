"""Build the code under test from /repo's current working tree (DESIGN 4.1).

Every variant is keyed by a content hash of /repo/src/*.[ch], the harness sources and the flags, so
an edited tree is always rebuilt and an unchanged one is not.  Output lives in /verif/build/.
"""
import fcntl
import glob
import hashlib
import os
import shutil
import subprocess
import sys

VERIF = os.path.dirname(os.path.dirname(os.path.abspath(__file__)))
REPO = os.environ.get("VERIF_REPO", "/repo")
BUILD = os.path.join(VERIF, "build")
HARNESS = os.path.join(VERIF, "harness")

COMMON = ["-std=gnu99", "-g", "-I" + REPO, "-I" + os.path.join(REPO, "src"), "-DHAVE_CONFIG_H",
          "-w"]

VARIANTS = {
    # name: (compiler, cflags for repo sources, extra link flags, harness cflags)
    "plain": ("gcc", ["-O2"], [], ["-O2"]),
    "asan": ("gcc", ["-O1", "-fsanitize=address,undefined", "-fno-omit-frame-pointer",
                     "-fsanitize-recover=address,undefined"],
             ["-fsanitize=address,undefined"], ["-O1", "-fsanitize=address,undefined",
                                                "-fsanitize-recover=address,undefined"]),
    "asanabort": ("gcc", ["-O1", "-fsanitize=address,undefined", "-fno-omit-frame-pointer", "-fno-sanitize-recover=all"],
                  ["-fsanitize=address,undefined"], ["-O1", "-fsanitize=address,undefined", "-fno-sanitize-recover=all"]),
    "msan": ("clang", ["-O1", "-fsanitize=memory", "-fno-omit-frame-pointer",
                       "-fsanitize-recover=memory"],
             ["-fsanitize=memory"], ["-O1", "-fsanitize=memory", "-fsanitize-recover=memory"]),
    "wrap": ("gcc", ["-O2"],
             ["-Wl,--wrap=malloc,--wrap=mmap,--wrap=mremap,--wrap=munmap,--wrap=open,"
              "--wrap=fstat,--wrap=close,--wrap=fopen,--wrap=fwrite,--wrap=fclose,--wrap=read,--wrap=write"],
             ["-O2", "-DHEXEC_WRAP"]),
    "tsan": ("gcc", ["-O1", "-fsanitize=thread"], ["-fsanitize=thread", "-pthread"],
             ["-O1", "-fsanitize=thread"]),
}


def repo_sources():
    return sorted(glob.glob(os.path.join(REPO, "src", "*.c")))


def _hash(paths, extra):
    h = hashlib.sha256()
    for p in paths:
        h.update(p.encode())
        with open(p, "rb") as f:
            h.update(f.read())
    h.update(repr(extra).encode())
    return h.hexdigest()[:16]


def tree_hash():
    hs = sorted(glob.glob(os.path.join(REPO, "src", "*.[ch]"))) + [os.path.join(REPO, "config.h")]
    hs += [os.path.join(REPO, "tools", "asmline.c")]
    return _hash([p for p in hs if os.path.exists(p)], "")


class Lock:
    def __enter__(self):
        os.makedirs(BUILD, exist_ok=True)
        self.f = open(os.path.join(BUILD, ".lock"), "w")
        fcntl.flock(self.f, fcntl.LOCK_EX)
        return self

    def __exit__(self, *a):
        fcntl.flock(self.f, fcntl.LOCK_UN)
        self.f.close()


def _run(cmd, what, quiet=False):
    r = subprocess.run(cmd, stdout=subprocess.PIPE, stderr=subprocess.STDOUT, text=True)
    if r.returncode != 0:
        if not quiet:
            sys.stderr.write("BUILD FAILED (%s): %s\n%s\n" % (what, " ".join(cmd), r.stdout[-4000:]))
        raise SystemExit(2)


def _gc(keep_prefix, keep):
    # remove older builds of the same variant to bound disk use
    for d in glob.glob(os.path.join(BUILD, keep_prefix + "-*")):
        if d != keep and not d.endswith(".tmp"):
            shutil.rmtree(d, ignore_errors=True)


def build_objects(variant, extra_cflags=(), tag=None, skip=()):
    """Compile the repo sources for a variant; returns (dir, [objects])."""
    cc, cflags, _, _ = VARIANTS[variant]
    srcs = [s for s in repo_sources() if os.path.basename(s) not in skip]
    hdrs = sorted(glob.glob(os.path.join(REPO, "src", "*.h"))) + [os.path.join(REPO, "config.h")]
    key = _hash(srcs + [h for h in hdrs if os.path.exists(h)], (cc, cflags, extra_cflags, skip))
    name = (tag or variant) + "-obj"
    out = os.path.join(BUILD, "%s-%s" % (name, key))
    objs = [os.path.join(out, os.path.basename(s)[:-2] + ".o") for s in srcs]
    if os.path.isdir(out) and all(os.path.exists(o) for o in objs):
        return out, objs
    tmp = out + ".%d.tmp" % os.getpid()
    shutil.rmtree(tmp, ignore_errors=True)
    os.makedirs(tmp)
    procs = []
    for s in srcs:
        o = os.path.join(tmp, os.path.basename(s)[:-2] + ".o")
        procs.append((s, subprocess.Popen([cc] + COMMON + cflags + list(extra_cflags) +
                                          ["-c", s, "-o", o],
                                          stdout=subprocess.PIPE, stderr=subprocess.STDOUT, text=True)))
    for s, p in procs:
        o, _ = p.communicate()
        if p.returncode != 0:
            sys.stderr.write("BUILD FAILED compiling %s:\n%s\n" % (s, o[-4000:]))
            shutil.rmtree(tmp, ignore_errors=True)
            raise SystemExit(2)
    shutil.rmtree(out, ignore_errors=True)
    os.rename(tmp, out)
    _gc(name, out)
    return out, objs


def build_harness(variant, harness_files, exe, extra_link=(), extra_cflags=(), obj_variant=None,
                  obj_extra=(), obj_tag=None, obj_skip=(), extra_objs=()):
    """Link harness sources against the repo objects of a variant. Returns path of the executable."""
    with Lock():
        cc, _, ldflags, hflags = VARIANTS[variant]
        odir, objs = build_objects(obj_variant or variant, obj_extra, obj_tag, obj_skip)
        hs = [os.path.join(HARNESS, f) for f in harness_files]
        deps = hs + sorted(glob.glob(os.path.join(HARNESS, "*.h")))
        key = _hash(deps, (variant, odir, extra_link, extra_cflags, extra_objs))
        name = "%s-%s" % (exe, variant)
        out = os.path.join(BUILD, "%s-%s" % (name, key))
        binp = os.path.join(out, exe)
        if os.path.exists(binp):
            return binp
        tmp = out + ".%d.tmp" % os.getpid()
        shutil.rmtree(tmp, ignore_errors=True)
        os.makedirs(tmp)
        cmd = [cc] + COMMON + hflags + list(extra_cflags) + hs + objs + list(extra_objs) + \
            ["-o", os.path.join(tmp, exe)] + ldflags + list(extra_link)
        try:
            _run(cmd, exe + "/" + variant, quiet=(exe == "hexec"))
        except SystemExit:
            if exe != "hexec":
                raise
            # the struct dump helper names internal fields; if they were renamed the executor is built without it
            _run(cmd[:1] + ["-DHX_NO_STATE_DUMP"] + cmd[1:], exe + "/" + variant)
        shutil.rmtree(out, ignore_errors=True)
        os.rename(tmp, out)
        _gc(name, out)
        return binp


def hexec(variant="plain"):
    files = ["hexec.c", "state_dump.c"] + (["wrap_libc.c"] if variant == "wrap" else [])
    return build_harness(variant, files, "hexec")


def sched():
    """C18 scheduler harness: repo sources compiled with -finstrument-functions and -fsanitize=thread (compile only: the
    __tsan_* entry points are implemented by harness/sched.c, which turns accesses to shared memory into scheduling
    points).  Returns (path, granularity note)."""
    flags = ["-O1", "-finstrument-functions", "-fsanitize=thread"]
    with Lock():
        srcs = repo_sources()
        hdrs = sorted(glob.glob(os.path.join(REPO, "src", "*.h"))) + [os.path.join(REPO, "config.h")]
        hs = [os.path.join(HARNESS, f) for f in ("sched.c", "c18_bodies.h")]
        key = _hash(srcs + [h for h in hdrs if os.path.exists(h)] + hs, ("sched2", flags))
        out = os.path.join(BUILD, "sched-%s" % key)
        binp = os.path.join(out, "sched")
        note = os.path.join(out, "granularity")
        if os.path.exists(binp):
            return binp, open(note).read()
        tmp = out + ".%d.tmp" % os.getpid()
        shutil.rmtree(tmp, ignore_errors=True)
        os.makedirs(tmp)
        gran = ("function entry/exit, every atomic operation, every load/store of writable global data, every "
                "mmap/munmap/mremap/pthread_once/mutex call of the library")
        objs = []
        for s in srcs:
            o = os.path.join(tmp, os.path.basename(s)[:-2] + ".o")
            _run(["gcc"] + COMMON + flags + ["-c", s, "-o", o], "sched: " + os.path.basename(s))
            objs.append(o)
        _run(["gcc"] + COMMON + ["-O1", os.path.join(HARNESS, "sched.c")] + objs + ["-o", os.path.join(tmp, "sched"), "-pthread",
              "-Wl,--wrap=pthread_once,--wrap=call_once,--wrap=pthread_mutex_lock,--wrap=pthread_mutex_unlock,"
              "--wrap=mmap,--wrap=munmap,--wrap=mremap"], "sched")
        with open(os.path.join(tmp, "granularity"), "w") as f:
            f.write(gran)
        shutil.rmtree(out, ignore_errors=True)
        os.rename(tmp, out)
        _gc("sched", out)
        return binp, gran


def c18_tsan():
    return build_harness("tsan", ["c18_tsan.c"], "c18_tsan", extra_link=("-Wl,--wrap=mremap",))


def c09_enum(variant="asanabort"):
    return build_harness(variant, ["c09_enum.c"], "c09_enum")


def asmline():
    with Lock():
        odir, objs = build_objects("plain")
        src = os.path.join(REPO, "tools", "asmline.c")
        key = _hash([src], odir)
        out = os.path.join(BUILD, "asmline-%s" % key)
        binp = os.path.join(out, "asmline")
        if os.path.exists(binp):
            return binp
        tmp = out + ".%d.tmp" % os.getpid()
        shutil.rmtree(tmp, ignore_errors=True)
        os.makedirs(tmp)
        _run(["gcc"] + COMMON + ["-O2", src] + objs + ["-o", os.path.join(tmp, "asmline")], "asmline")
        shutil.rmtree(out, ignore_errors=True)
        os.rename(tmp, out)
        _gc("asmline", out)
        return binp


if __name__ == "__main__":
    for v in sys.argv[1:] or ["plain"]:
        print(hexec(v))
