"""C05 — relative jumps and calls encode the given displacement; rel8 never wraps (E1)."""
from .. import e1, hexec, isa, shapes
from ..decode import R64
from ..report import Report

PROP = "C05"
REL32 = ["jmp", "call", "xbegin"] + isa.JCC     # mnemonics that have a rel32 form
REL8ONLY = ["jrcxz"]
HAS_REL8 = ["jmp", "jrcxz"] + isa.JCC


def dvalues(tier, seed):
    d = list(range(-129, 129))
    for c in (1 << 15, 1 << 31):
        d += [c - 2, c - 1, -c, -c + 1, -c - 1, c, c + 1]
    d += [1 << 32, (1 << 32) - 1, -(1 << 32), 0x7fff0000, -0x7fff0000, 0x10000, -0x10000, 255, 256, -255, -256]
    # the 32-bit two's-complement spellings of -130..-1 (0xffffff7e..0xffffffff): every value around the rel8 boundary
    d += [(1 << 32) + x for x in range(-130, 0)]
    if tier == "thorough":
        d += [1 << 40, -(1 << 40), (1 << 63) - 1, 1 << 63 - 1, 0x12345678, -0x12345678, 0x1000, -0x1000,
              (1 << 24), -(1 << 24), 0xffffff80, 0xffffffff, 0x80000000 - 129, -(0x80000000 - 129)]
    import random
    rnd = random.Random(seed)
    d += [rnd.randrange(-(1 << 31), 1 << 31) for _ in range(8 if seed else 0)]
    return sorted(set(d))


def dclass(d):
    if -128 <= d <= 127:
        return "rel8"
    if -(1 << 31) <= d < (1 << 31):
        return "rel32"
    if (1 << 31) <= d < (1 << 32):
        return "u32"     # the two's-complement spelling of a negative 32-bit displacement (0xffffff80 = -128)
    return "out"


def cases_rel(tier, seed):
    for mn in REL32 + REL8ONLY:
        for kw in (None, "short", "long"):
            for d in dvalues(tier, seed):
                for sp in ("dec", "hex", "pad16"):
                    if sp == "pad16" and abs(d) > 200 and abs(d) not in (1 << 15, 1 << 31, (1 << 31) - 1):
                        continue
                    flags = []
                    dc = dclass(d)
                    has32 = mn in REL32
                    has8 = mn in HAS_REL8
                    dd = d
                    if dc == "u32":
                        # lenient reading: may be refused; if accepted the field must equal d modulo 2^32
                        dd = d - (1 << 32)
                        if (kw == "short" or not has32) and not -128 <= dd <= 127:
                            flags.append("must_reject")
                        else:
                            flags.append("may_reject")
                            if kw == "long" and has32:
                                flags.append(("minlen", 5))
                    elif dc == "out":
                        flags.append("must_reject")
                    elif kw == "short":
                        if dc != "rel8":
                            flags.append("must_reject")
                        else:
                            flags.append("may_reject")   # the statement does not demand acceptance of `short`
                            if has8:
                                flags.append(("maxlen", 2))
                    elif kw == "long":
                        if not has32:
                            flags.append("may_reject")
                        else:
                            flags.append(("minlen", 5))
                    else:
                        if not has32 and dc != "rel8":
                            flags.append("must_reject")
                    a = {"form": "rel", "width": "", "class": "rel", "kw": kw or "none", "dclass": dc, "spelling": sp,
                         "sign": "neg" if d < 0 else "pos", "hand": True}
                    c = e1.mk(mn, (("rel", d, "hex" if sp == "pad16" else sp, kw),), a, flags=tuple(flags))
                    if sp == "pad16":        # 0x + 16 digits: the spelling that switches SMART mov-immediate handling
                        c.text = "%s %s%s0x%016x" % (mn, (kw + " ") if kw else "", "-" if d < 0 else "", abs(d))
                    if dd != d:
                        c.ops = (("rel", dd),)
                    yield c


def M(width, shape, kw=None):
    b, i, sc, d, st = shape
    return ("m", kw, width, b, i, sc, d, st)


def cases_indirect():
    for mn in ("jmp", "call"):
        for r in R64:
            yield e1.mk(mn, (("r", r),), {"form": "r", "width": "64", "class": "reg", "rc0": isa.regclass(r)})
        for sh in shapes.key_shapes():
            for kw in (None, "qword"):
                a = {"form": "m", "width": "64", "class": "mem", "kw": kw or "none"}
                a.update(shapes.shape_class(*sh[:4]))
                yield e1.mk(mn, (M(64, sh, kw),), a)
            for kw, far in ((None, ("far", None)), ("qword", ("far", "qword")), ("dword", ("far", "dword")),
                            ("word", ("far", "word"))):
                a = {"form": "far m", "width": kw or "none", "class": "mem", "kw": "far " + (kw or "")}
                a.update(shapes.shape_class(*sh[:4]))
                if kw is None:
                    a["hand"] = True
                b, i, sc, d, st = sh
                text = "%s far %s" % (mn, isa.mem_text(kw, b, i, sc, d, st))
                c = e1.mk(mn, (M(None, sh, kw),), a, flags=(far,))
                c.text = text
                yield c


def extra_check(case, cfg, hx, dec):
    out = set()
    n = len(hx) // 2
    for f in case.flags:
        if isinstance(f, tuple):
            if f[0] == "minlen" and n < f[1]:
                out.add("rel.width")       # `long` must give the rel32 form
            elif f[0] == "maxlen" and n > f[1]:
                out.add("rel.width")
            elif f[0] == "far" and dec is not None and dec.ops and dec.ops[0][0] == "m":
                w = dec.ops[0][1]
                rexw = any(p.startswith("rex.") and "W" in p[4:] for p in dec.prefixes)
                if f[1] == "word":
                    ok = (w == 32 and not rexw)
                elif f[1] == "dword":
                    ok = (w == 48 and not rexw)
                elif f[1] == "qword":
                    ok = (w == 48 and rexw)
                else:
                    ok = (w == 48)
                if not ok:
                    out.add("far.size")
    return out


def replay(r, verbose=False):
    return e1.replay(r, verbose, extra_check=extra_check)


def run(tier, seed):
    rep = Report(PROP, tier, seed)
    cfgs = hexec.QUICK_CFGS if tier == "quick" else hexec.CONFIGS[::2] + [hexec.CONFIGS[-1]]
    rep.rule = ("{jmp, 15 jcc, call, jrcxz, xbegin} x {no keyword, short, long} x every d in [-129,128] plus the +/-2^15, "
                "+/-2^31, 2^32 neighbourhoods x {decimal, hex}; accepted lines must decode to the same operation with "
                "displacement d (and rel32 when `long`), lines that can only wrap must be rejected without emitting; "
                "indirect forms over all 16 registers and the key address shapes, near and far with each size keyword. "
                "distinct_nontrivial = distinct lines that produced code or had to be rejected")
    for name, gen in (("relative", lambda: cases_rel(tier, seed)), ("indirect", cases_indirect)):
        cases = list(gen())
        res = e1.run_block(rep, cases, cfgs, extra_check=extra_check, validate_tag=PROP, fit_retry=True)
        rep.bounds[name] = len(cases)
        for smp in res[:3]:
            rep.sample(smp)
    rep.bounds["d_values"] = len(dvalues(tier, seed))
    rep.assumptions = ["a numeric operand of a branch is its displacement (README: `jmp 0x4` skips 4 bytes)",
                       "objdump prints far pointers m16:16 / m16:32 / m16:64 as DWORD / FWORD / rex.W FWORD"]
    return rep.finish(replay)
