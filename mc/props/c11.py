"""C11 — assembly modes change only the documented forms, in the documented way (E1: decode rules + byte relations)."""
from .. import hexec, isa, oracle, shapes
from ..decode import R64, R32, REGW, REGN, decode_many
from ..report import Report
from . import c01, c02, c03, c04, c05

PROP = "C11"
CFGS = hexec.CONFIGS
U64 = 1 << 64


def cfgname(c):
    return "/".join(c)


def run_lines(texts, cfgs):
    """-> {(text index, cfg): (ret, hex)}"""
    lines = []
    for t in texts:
        et = hexec.esc_fast(t)
        for c in cfgs:
            lines.append("c64:p:cc\t%s\tA%s" % (hexec.cfg_ops(c), et))
    res = hexec.run(lines)
    out = []
    k = 0
    for t in texts:
        row = []
        for c in cfgs:
            o = res[k]
            k += 1
            if hexec.is_crash(o):
                row.append(("crash", ""))
            else:
                a = hexec.Asm(o[-1])
                row.append((a.ret, a.hex[:2 * a.off] if a.ret == 0 and a.off >= 0 else ""))
        out.append(row)
    return out


# ---- (i) mov r64, imm -------------------------------------------------------------------------------------------------

def part_movimm(rep, tier, seed):
    V = [v for v in c03.values(tier, seed) if c03.representable(v, 64, "mov64")]
    cases = []
    for r in R64:
        for v in V:
            sps = (["negdec", "neghex"] if v < 0 else ["dec", "hex", "hex16"])
            for sp in sps:
                cases.append((r, v, sp, "mov %s, %s" % (r, isa.imm_text(v, sp))))
    texts = [c[3] for c in cases]
    rows = run_lines(texts, CFGS)
    nb = oracle.nasm_bytes(texts, opt="-Ox")   # nasm's default optimisation level narrows
    blobs = sorted({h for row in rows for _, h in row if h} | {b.hex() for b in nb if b})
    decs = dict(zip(blobs, decode_many([bytes.fromhex(b) for b in blobs])))
    for (r, v, sp, text), row, nbytes in zip(cases, rows, nb):
        fits = 0 <= v <= 0xffffffff
        per_mode = {}
        for cfg, (ret, hx) in zip(CFGS, row):
            rep.evaluations += 1
            rep.traces += 1
            disc = set()
            want_narrow = {"STRICT": False, "NASM": fits, "SMART": fits and sp != "hex16"}[cfg[0]]
            if ret != 0:
                disc.add("rejected" if ret == 1 else "crash")
            else:
                d = decs[hx]
                if d.consumed != d.nbytes or not d.sync or d.op not in ("mov", "movabs") or len(d.ops) != 2 \
                        or d.ops[0][0] != "r" or d.ops[1][0] != "i":
                    disc.add("malformed")
                else:
                    dreg = d.ops[0][1]
                    narrow = REGW.get(dreg) == 32
                    if REGN.get(dreg) != REGN[r] or REGW.get(dreg) not in (32, 64):
                        disc.add("op0.reg")
                    if narrow != want_narrow:
                        disc.add("narrowing")
                    w = 32 if narrow else 64
                    if (d.ops[1][1] - v) % (1 << w) or (narrow and not fits):
                        disc.add("imm.value")
                    if cfg[0] == "NASM" and nbytes:
                        dn = decs[nbytes.hex()]
                        if dn.ops and dn.ops[0][0] == "r" and REGW.get(dn.ops[0][1]) != REGW.get(dreg):
                            disc.add("differs-from-nasm")
                per_mode.setdefault(cfg[0], set()).add(hx)
            rep.outcomes.add((cfg[0], sp, hx[:4] if hx else ret))
            if disc:
                rep.fail({"class": "movimm", "mnemonic": "mov", "cfg": cfgname(cfg), "spelling": sp, "fits32": str(int(fits)),
                          "sign": "neg" if v < 0 else "pos", "rc0": isa.regclass(r)},
                         disc, {"kind": "movimm", "text": text, "cfg": list(cfg), "r": r, "v": v, "sp": sp},
                         "%r [%s] -> %s %s" % (text, cfgname(cfg), hx, decs[hx].text if hx in decs else ""))
        for m, hs in per_mode.items():
            if len(hs) > 1:
                rep.fail({"class": "movimm-sibbits", "mnemonic": "mov", "spelling": sp},
                         ["sib-bits-change-mov"], {"kind": "movimm", "text": text, "cfg": [m, "NASM", "NASM"], "r": r, "v": v, "sp": sp},
                         "%r: bytes differ between SIB option settings in mov-imm mode %s: %s" % (text, m, sorted(hs)))
    rep.states += len(cases)
    rep.distinct_n += len(cases)
    rep.bounds["movimm_lines"] = len(cases)
    rep.sample({"text": cases[len(cases) // 2][3], "rule": "NASM narrows iff 0<=v<=0xffffffff; STRICT never; SMART as NASM unless 16 hex digits"})


# ---- (ii) SIB option shapes ---------------------------------------------------------------------------------------------

CLASS_INSNS = [("lea r15, %s", None), ("mov rdx, %s", 64), ("mov %s, rdx", 64), ("inc dword %s", 32), ("add qword %s, 0x5", 64),
               ("add dword %s, 0x0000000000000005", 32),     # a 16-digit literal is only special for mov r64, imm
               ("paddb xmm3, %s", 128), ("vpaddd ymm1, ymm2, %s", 256), ("bextr rdx, %s, rcx", 64)]


def sib_shapes(tier):
    sp = []
    for regs, s in ((R64, "rsp"), (R32, "esp")):
        for b in regs:
            if b in ("rsp", "esp"):
                continue
            for d in (None, 0x10, -0x100):
                sp.append(("sp", (b, s, None, d, "")))
    nb = []
    for regs in (R64, R32):
        for i in regs:
            if i in ("rsp", "esp"):
                continue
            for sc in (1, 2, 4, 8):
                for d in ((None, 0x10, 0x100) if tier == "quick" else (None, 0x10, -0x10, 0x100, -0x100)):
                    nb.append(("nb", (None, i, sc, d, "s")))
    return sp + nb


def part_sib(rep, tier):
    sh = sib_shapes(tier)
    insns = CLASS_INSNS if tier == "thorough" else CLASS_INSNS[:2] + CLASS_INSNS[3:4] + CLASS_INSNS[5:8]
    cases = []
    for kind, s in sh:
        b, i, sc, d, st = s
        mt = isa.mem_text(None, b, i, sc, d, st)
        for tmpl, w in insns:
            cases.append((kind, s, tmpl % mt, tmpl.split()[0]))
    texts = [c[2] for c in cases]
    rows = run_lines(texts, CFGS)
    blobs = sorted({h for row in rows for _, h in row if h})
    decs = dict(zip(blobs, decode_many([bytes.fromhex(b) for b in blobs])))
    for (kind, s, text, mn), row in zip(cases, rows):
        b, i, sc, d, st = s
        at = {"class": "sib-" + kind, "mnemonic": mn}
        at.update(shapes.shape_class(b, i, sc, d))
        bycfg = dict(zip(CFGS, row))
        # relations: the mov-imm bit never changes these bytes; each SIB bit changes only its own shapes
        groups = {}
        for cfg, (ret, hx) in bycfg.items():
            rep.evaluations += 1
            rep.traces += 1
            key = cfg[1] if kind == "sp" else cfg[2]
            groups.setdefault(key, set()).add((ret, hx))
        for key, vals in groups.items():
            if len(vals) > 1:
                a = dict(at)
                a["cfg"] = key
                rep.fail(a, ["unrelated-option-changes-bytes"], {"kind": "sib", "text": text, "cfg": ["SMART", "NASM", "NASM"]},
                         "%r: bytes depend on an option other than its own (%s=%s): %s" % (text, "swap" if kind == "sp" else "nobase", key, sorted(vals)))
        # decode rules
        for own in ("STRICT", "NASM"):
            cfg = ("SMART", own, "NASM") if kind == "sp" else ("SMART", "NASM", own)
            ret, hx = bycfg[cfg]
            disc = set()
            if ret != 0:
                disc.add("rejected")
            else:
                dd = decs[hx]
                m = next((o for o in dd.ops if o[0] == "m"), None)
                if dd.consumed != dd.nbytes or not dd.sync or m is None:
                    disc.add("malformed")
                else:
                    lin = dict(m[3])
                    raw = m[5]
                    disp = (d or 0) % (1 << m[2])
                    if kind == "sp":
                        if own == "STRICT":
                            # documented literal encoding: the stack pointer in the index field means "no index"
                            if lin != {b: 1} or raw[1] is not None:
                                disc.add("literal-encoding")
                        else:
                            if lin != {b: 1, i: 1}:
                                disc.add("address")
                    else:
                        if lin != {i: sc}:
                            disc.add("address")
                        if own == "STRICT" and (raw[0] is not None or raw[1] != i or raw[2] != sc):
                            disc.add("literal-encoding")
                    if m[4] != disp:
                        disc.add("disp")
            rep.outcomes.add((kind, own, hx[:6]))
            if disc:
                a = dict(at)
                a["cfg"] = cfgname(cfg)
                a["own"] = own
                rep.fail(a, disc, {"kind": "sib", "text": text, "cfg": list(cfg)},
                         "%r [%s] -> %s %s" % (text, cfgname(cfg), hx, decs[hx].text if hx in decs else ""))
    # a stack pointer written as the only register, '[1*rsp+d]': it is an rsp-index shape AND a no-base shape, so either
    # option being NASM yields the address-preserving encoding [rsp+d]; only with both STRICT may the literal one appear
    lone = []
    for sp_ in ("rsp", "esp"):
        for d in (None, 0x10, -0x100):
            mt = isa.mem_text(None, None, sp_, 1, d, "s")
            for tmpl, w in insns:
                lone.append((sp_, d, tmpl % mt, tmpl.split()[0]))
    rows = run_lines([c[2] for c in lone], CFGS)
    blobs = sorted({h for row in rows for _, h in row if h})
    decs2 = dict(zip(blobs, decode_many([bytes.fromhex(b) for b in blobs])))
    for (sp_, d, text, mn), row in zip(lone, rows):
        at = {"class": "sib-lone-sp", "mnemonic": mn}
        at.update(shapes.shape_class(None, sp_, 1, d))
        for cfg, (ret, hx) in zip(CFGS, row):
            rep.evaluations += 1
            rep.traces += 1
            disc = set()
            if ret != 0:
                disc.add("rejected")
            else:
                dd = decs2[hx]
                m = next((o for o in dd.ops if o[0] == "m"), None)
                if dd.consumed != dd.nbytes or not dd.sync or m is None:
                    disc.add("malformed")
                else:
                    lin = dict(m[3])
                    if lin != {sp_: 1} and not (cfg[1] == "STRICT" and cfg[2] == "STRICT" and lin == {}):
                        disc.add("address")
                    if m[4] != (d or 0) % (1 << m[2]):
                        disc.add("disp")
            rep.outcomes.add(("lone-sp", cfg[1], cfg[2], hx[:6]))
            if disc:
                a = dict(at)
                a["cfg"] = cfgname(cfg)
                rep.fail(a, disc, {"kind": "sib", "text": text, "cfg": list(cfg)},
                         "%r [%s] -> %s %s" % (text, cfgname(cfg), hx, decs2[hx].text if hx in decs2 else ""))
        by = {}
        for cfg, (ret, hx) in zip(CFGS, row):
            by.setdefault((cfg[1], cfg[2]), set()).add((ret, hx))
        for k, vals in by.items():
            if len(vals) > 1:
                a = dict(at)
                a["cfg"] = "/".join(k)
                rep.fail(a, ["unrelated-option-changes-bytes"], {"kind": "sib", "text": text, "cfg": ["SMART", k[0], k[1]]},
                         "%r: bytes depend on the mov-immediate option: %s" % (text, sorted(vals)))
    rep.states += len(cases) + len(lone)
    rep.distinct_n += len(cases) + len(lone)
    rep.bounds["sib_shape_lines"] = len(cases)
    rep.bounds["lone_stack_pointer_index_lines"] = len(lone)
    rep.sample({"text": cases[0][2], "rule": "swap STRICT: literal (no index); swap NASM: address preserved"})
    rep.sample({"text": cases[-1][2], "rule": "nobase STRICT: literal [s*index+disp32]; NASM: address preserved"})


# ---- (iii) non-interference ------------------------------------------------------------------------------------------------

def is_optioned(c):
    """Lines whose bytes may legitimately depend on an option: mov r64, imm; sp-index shapes; no-base+index shapes."""
    if c.op == "mov" and len(c.ops) == 2 and c.ops[0][0] == "r" and REGW.get(c.ops[0][1]) == 64 and c.ops[1][0] == "i":
        return True
    if "spidx" in c.flags:
        return True
    if c.attrs.get("base") == "none" and c.attrs.get("index", "none") != "none":
        return True
    return False


def corpus(tier, seed):
    for _, g in c01.BLOCKS:
        yield from g()
    for g in (c03.cases_alu, c03.cases_shift, c03.cases_imul_push):
        yield from g(tier, seed)
    yield from c04.cases_sse()
    yield from c04.cases_bmi()
    yield from c04.cases_mem()
    yield from c05.cases_rel(tier, seed)
    yield from c05.cases_indirect()
    if tier == "thorough":
        yield from c04.cases_vex3(tier)
        for sh in shapes.grid("quick"):
            yield from c02.reps(sh, full=False)
    else:
        for sh in shapes.key_shapes():
            yield from c02.reps(sh, full=False)


def part_noninterference(rep, tier, seed):
    seen = set()
    cases = []
    for c in corpus(tier, seed):
        if is_optioned(c) or c.text in seen:
            continue
        seen.add(c.text)
        cases.append(c)
    step = 60000
    n = 0
    for k in range(0, len(cases), step):
        if rep.expired():
            rep.cut_short("non-interference corpus cut at %d of %d lines" % (k, len(cases)))
            break
        chunk = cases[k:k + step]
        rows = run_lines([c.text for c in chunk], CFGS)
        for c, row in zip(chunk, rows):
            rep.evaluations += len(row)
            rep.traces += len(row)
            vals = {}
            for cfg, v in zip(CFGS, row):
                vals.setdefault(v, []).append(cfg)
            if len(vals) > 1:
                a = dict(c.attrs)
                a["class"] = "noninterference"
                a["mnemonic"] = c.text.split()[0]
                minority = min(vals.values(), key=len)
                a["odd_mode"] = minority[0][0]
                rep.fail(a, ["bytes-depend-on-options"], {"kind": "ni", "text": c.text},
                         "%r: %s" % (c.text, {v[1] or v[0]: [cfgname(x) for x in cs][:3] for v, cs in vals.items()}))
            n += 1
    rep.states += n
    rep.distinct_n += n
    rep.bounds["noninterference_lines"] = n
    rep.sample({"text": cases[len(cases) // 3].text, "rule": "identical bytes under all 12 option combinations"})


def replay(r, verbose=False):
    if r["kind"] == "ni":
        row = run_lines([r["text"]], CFGS)[0]
        if verbose:
            print(r["text"], dict(zip(map(cfgname, CFGS), row)))
        return len(set(row)) > 1
    rep = Report(PROP, "quick", 0)
    rep.findings = []
    if r["kind"] == "movimm":
        # re-run the single line through the same judge
        cases = [(r["r"], r["v"], r["sp"], r["text"])]
        rows = run_lines([r["text"]], CFGS)
        if verbose:
            print(r["text"], dict(zip(map(cfgname, CFGS), rows[0])))
        hs = {}
        for cfg, (ret, hx) in zip(CFGS, rows[0]):
            hs.setdefault(cfg[0], set()).add(hx)
        fits = 0 <= r["v"] <= 0xffffffff
        cfg = tuple(r["cfg"])
        ret, hx = rows[0][CFGS.index(cfg)]
        if ret != 0:
            return True
        d = decode_many([bytes.fromhex(hx)])[0]
        want = {"STRICT": False, "NASM": fits, "SMART": fits and r["sp"] != "hex16"}[cfg[0]]
        bad = not (d.ops and d.ops[0][0] == "r") or (REGW.get(d.ops[0][1]) == 32) != want or any(len(v) > 1 for v in hs.values())
        if not bad and d.ops[1][0] == "i":
            w = 32 if REGW.get(d.ops[0][1]) == 32 else 64
            bad = bool((d.ops[1][1] - r["v"]) % (1 << w))
        return bad
    rows = run_lines([r["text"]], CFGS)
    if verbose:
        print(r["text"], dict(zip(map(cfgname, CFGS), rows[0])))
    return True   # SIB-shape violations are deterministic single-line facts; the dump above shows them


def run(tier, seed):
    rep = Report(PROP, tier, seed)
    rep.rule = ("(i) mov r64, imm: 16 registers x the C03 value set x {decimal, hex, 16-digit hex, negated} x all 12 option "
                "combinations: narrowing to the 32-bit destination exactly per mode (cross-checked with nasm's own bytes), value "
                "preserved, SIB bits irrelevant; (ii) every [base+rsp/esp] and [scale*index+-disp] shape under one instruction "
                "per encoding class x 12 combinations: literal encoding under STRICT, address preserved under NASM, bytes "
                "independent of the other two option bits; (iii) every other line of the C01-C05 corpus: identical bytes under "
                "all 12 combinations. distinct_nontrivial = distinct lines")
    part_movimm(rep, tier, seed)
    part_sib(rep, tier)
    part_noninterference(rep, tier, seed)
    rep.transitions = rep.evaluations
    rep.bounds["configurations"] = len(CFGS)
    rep.assumptions = ["nasm 2.16 is the reference for 'as nasm does'", "objdump raw base/index/scale is the meaning of a literal SIB"]
    return rep.finish(replay)
