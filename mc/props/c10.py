"""C10 — malformed or unencodable lines are rejected and emit nothing (E1, must-reject sets)."""
import itertools
import os
import re

from .. import build, hexec, isa
from ..decode import R64, R32, R16, R8, R8H
from ..report import Report

PROP = "C10"
KINDS = "rvymi"

# --- operand-kind tuples x86-64 defines per mnemonic (kind-level projection of the SDM; MMX registers share the
# scalar kind 'r' in the library's grammar, so tuples that only make sense for mm registers count as defined) ----------
ALU = {"rr", "rm", "mr", "ri", "mi"}
DEFINED = {}


def _d(names, tuples):
    for n in names:
        DEFINED[n] = set(tuples)


_d(isa.ALU2 + ["mov"], ALU)
_d(["test"], {"rr", "mr", "rm", "ri", "mi"})
_d(["xchg"], {"rr", "rm", "mr"})
_d(isa.UNARY, {"r", "m"})
_d(["imul"], {"r", "m", "rr", "rm", "rri", "rmi", "ri"})
_d(isa.SHIFTS + ["rcr", "ror"], {"ri", "mi", "rr", "mr", "r", "m"})
_d(["shld", "shrd"], {"rri", "mri", "rrr", "mrr"})
_d(["cmov" + c for c in isa.CCS], {"rr", "rm"})
_d(["set" + c for c in isa.CCS], {"r", "m"})
_d(["movzx"], {"rr", "rm"})
_d(["lea"], {"rm"})
_d(["push"], {"r", "m", "i"})
_d(["pop"], {"r", "m"})
_d(["jmp", "call"], {"i", "r", "m"})
_d(isa.JCC + ["jrcxz", "xbegin", "xabort"], {"i"})
_d(["ret"], {"", "i"})
_d(isa.ADX, {"rr", "rm"})
_d(["bextr", "bzhi", "sarx", "shlx", "shrx"], {"rrr", "rmr"})
_d(["mulx"], {"rrr", "rrm"})
_d(["rorx"], {"rri", "rmi"})
_d(isa.PREFETCH, {"m"})
_d([n for n in isa.NOOPS if n != "ret"], {""})
_d(["nop"], {"", "r", "m"})
_d(["nop%d" % k for k in range(2, 12)], {""})
_d(isa.MMXSSE_BIN + ["pand"], {"vv", "vm", "rr", "rm"})
_d(isa.SSE4_BIN + isa.SSE_REGONLY, {"vv", "vm"})
_d(["movd"], {"vr", "vm", "rv", "mv", "rr", "rm", "mr"})
_d(["movq"], {"vr", "rv", "vv", "vm", "mv", "rr", "rm", "mr"})
_d(["movntdqa"], {"vm"})
_d(["movntq"], {"mr"})
_d(["psrldq"], {"vi"})
_d(["vaddpd", "vdivpd", "vmulpd", "vsubpd"] + isa.VEX128_256, {"vvv", "vvm", "yyy", "yym"})
_d(["vpermd"], {"yyy", "yym"})
_d(isa.VEXMOV, {"vv", "vm", "mv", "yy", "ym", "my"})
_d(isa.VEXIMM, {"yyyi", "yymi"})
MNEMONICS = sorted(DEFINED)

REGS_BY_W = {64: ["rax", "rbx", "rcx", "rdx"], 32: ["eax", "ebx", "ecx", "edx"], 16: ["ax", "bx", "cx", "dx"],
             8: ["al", "bl", "cl", "dl"]}


def inst(tup, w):
    ops = []
    for i, k in enumerate(tup):
        if k == "r":
            ops.append(REGS_BY_W[w][i])
        elif k == "v":
            ops.append("xmm%d" % (i + 1))
        elif k == "y":
            ops.append("ymm%d" % (i + 1))
        elif k == "m":
            ops.append("[rax]")
        else:
            ops.append("3")
    return ", ".join(ops)


def all_tuples():
    for n in range(0, 5):
        for t in itertools.product(KINDS, repeat=n):
            yield "".join(t)


VALID_REGS = set(R64 + R32 + R16 + R8 + R8H + ["mm%d" % i for i in range(8)] + ["xmm%d" % i for i in range(16)] +
                 ["ymm%d" % i for i in range(16)])
ABC = "abcdefghijklmnopqrstuvwxyz0123456789"
KNOWN_NOW = set()      # filled by run(): names of the library's own tables (tree_names)


def mutants(name):
    """-> list of (mutant, attrs): every single-character deletion / substitution / insertion."""
    out = {}

    def add(m, kind, i, ch):
        if m and m not in VALID_REGS and m not in KNOWN_NOW and not m[0].isdigit() and m not in out:
            where = "first" if i == 0 else ("last" if i >= len(name) - (0 if kind == "ins" else 1) else "mid")
            out[m] = {"mutkind": kind, "mutpos": where, "ch": ch, "mlen": str(len(m))}
    for i in range(len(name)):
        add(name[:i] + name[i + 1:], "del", i, "")
        for ch in ABC:
            add(name[:i] + ch + name[i + 1:], "sub", i, ch)
    for i in range(len(name) + 1):
        for ch in ABC:
            add(name[:i] + ch + name[i:], "ins", i, ch)
    # a token starting with a digit is a (malformed) number, not a register name; the property does not list those
    return sorted(out.items())


def gen_kinds(tier):
    widths = (64,) if tier == "quick" else (64, 32, 16, 8)
    for mn in MNEMONICS:
        for t in all_tuples():
            must = t not in DEFINED[mn]
            for w in (widths if "r" in t else widths[:1]):
                text = mn + (" " + inst(t, w) if t else "")
                yield {"cat": "kinds", "text": text, "must": must, "mnemonic": mn, "tuple": t or "none", "width": str(w)}


def tree_names():
    """Every lower-case string literal of the library sources: the names the library itself knows (mnemonics, registers,
    keywords).  'Unknown' in the statement means unknown to the library, so a name that a later version of the tables adds must
    not be demanded to fail; this makes the must-reject sets follow the tree instead of a list frozen here."""
    import glob
    names = set()
    for f in glob.glob(os.path.join(build.REPO, "src", "*.c")):
        try:
            names.update(re.findall(r'"([a-z][a-z0-9]*)"', open(f, errors="replace").read()))
        except OSError:
            pass
    return names


# registers x86-64 has but the library does not: a mutant that lands on one of them is only demanded to fail while the
# library's own tables do not contain it (tree_names)
X86_OTHER_REGS = set(["cs", "ds", "es", "fs", "gs", "ss", "ip", "eip", "rip", "flags", "eflags", "rflags"] +
                     ["%s%d" % (p, i) for p, n in (("zmm", 32), ("xmm", 32), ("ymm", 32), ("k", 8), ("st", 8), ("cr", 16), ("dr", 16),
                                                    ("bnd", 4), ("tmm", 8), ("tr", 8)) for i in range(n)])


def gen_unknown_mnemonic():
    known = tree_names()
    for mn in ("foo", "movx", "addd", "ad", "vpaddx", "jmpq", "mo", "xyzzy", "nop12", "nop0", "setxx", "cmovq", "rep", "lock"):
        if mn in known:
            continue
        for ops in ("", "rax", "rax, rbx", "[rax], 1"):
            yield {"cat": "mnemonic", "text": (mn + " " + ops).strip(), "must": True, "mnemonic": mn, "tuple": "-"}


def gen_regtypos(tier):
    names = sorted(VALID_REGS) if tier == "thorough" else ["rax", "rsp", "r8", "r12d", "r10w", "r9b", "eax", "ax", "al",
                                                            "ah", "spl", "mm3", "xmm5", "xmm12", "ymm0", "ymm15"]

    def case(text, nm, pos, ma):
        c = {"cat": "regtypo", "text": text, "must": True, "reg": nm, "pos": pos}
        c.update(ma)
        return c
    for nm in names:
        vec = nm[0] in "xy" or nm.startswith("mm")
        for mu, ma in mutants(nm):
            if vec:
                if nm[0] == "y":
                    yield case("vpaddd %s, ymm1, ymm2" % mu, nm, "op0", ma)
                    yield case("vpaddd ymm1, ymm2, %s" % mu, nm, "op2", ma)
                else:
                    o = "xmm1" if nm[0] == "x" else "mm1"
                    yield case("paddb %s, %s" % (mu, o), nm, "op0", ma)
                    yield case("paddb %s, %s" % (o, mu), nm, "op1", ma)
                continue
            w = isa.REGW[nm]
            other = REGS_BY_W[w][1]
            yield case("mov %s, %s" % (mu, other), nm, "op0", ma)
            yield case("mov %s, %s" % (other, mu), nm, "op1", ma)
            if w in (32, 64):
                o = "ecx" if w == 32 else "rcx"
                yield case("mov rdx, [%s]" % mu, nm, "base", ma)
                yield case("mov rdx, [%s+0x10]" % mu, nm, "base", ma)
                yield case("mov rdx, [%s+%s*2]" % (o, mu), nm, "index", ma)
                yield case("mov rdx, [%s+%s]" % (o, mu), nm, "index", ma)
                yield case("mov rdx, [2*%s]" % mu, nm, "index-nobase", ma)


MEM_TEMPLATES = ["mov rax, %s", "mov %s, rax", "lea rax, %s", "inc dword %s", "add qword %s, 5", "shl qword %s, 1", "setne %s",
                 "push %s", "jmp %s", "imul rax, %s, 5", "cmovne rax, %s", "movzx eax, byte %s", "shld %s, rax, cl",
                 "paddb xmm1, %s", "paddb mm1, %s", "movq %s, xmm1", "vpaddd ymm1, ymm2, %s", "vpxor xmm0, xmm1, %s",
                 "vmovupd %s, ymm1", "bextr rax, %s, rcx", "mulx rax, rbx, %s", "rorx rax, %s, 5", "vperm2i128 ymm1, ymm2, %s, 1",
                 "adcx rax, %s", "clflush %s"]


def gen_memclasses():
    """Every invalid memory expression under one instruction per encoding class that takes a memory operand."""
    bad = []
    for sc in (0, 3, 5, 6, 7, 9, 10, 16, 42):
        bad += [("scale", "[rbx+rcx*%d]" % sc), ("scale", "[rbx+%d*rcx]" % sc), ("scale", "[%d*rcx]" % sc)]
    for sp, b in (("rsp", "rbx"), ("esp", "ebx")):
        for sc in (2, 4, 8):
            bad += [("spidx", "[%s+%s*%d]" % (b, sp, sc)), ("spidx", "[%s+%d*%s]" % (b, sc, sp)), ("spidx", "[%d*%s]" % (sc, sp)),
                    ("spidx", "[%s+%s*%d+0x10]" % (b, sp, sc))]
        bad += [("spidx", "[%s+%s]" % (sp, sp)), ("spidx", "[%s+%s*1]" % (sp, sp)), ("spidx", "[%s+%s+0x10]" % (sp, sp))]
    bad += [("bracket", "[rbx"), ("bracket", "[rbx+rcx*2"), ("bracket", "[rbx+0x10"), ("bracket", "[[rbx]"), ("bracket", "[rbx]]"),
            ("bracket", "[rbx+[rcx]"), ("bracket", "[rbx+rcx*2]]"), ("bracket", "[[rbx+0x10]")]
    for cat, m in bad:
        for t in MEM_TEMPLATES:
            yield {"cat": cat, "text": t % m, "must": True, "how": "class:" + t.split()[0], "mexpr": m}


def gen_memsyntax():
    for sc in (0, 3, 5, 6, 7, 9, 10, 16, 42):
        for t in ("mov rax, [rbx+rcx*%d]", "mov rax, [rbx+%d*rcx]", "mov rax, [%d*rcx]", "mov rax, [rbx+rcx*%d+0x10]",
                  "mov [rbx+rcx*%d], rax", "vpaddd ymm1, ymm2, [rbx+rcx*%d]", "lea rax, [ebx+ecx*%d]"):
            yield {"cat": "scale", "text": t % sc, "must": True, "scale": str(sc)}
    for sp, b in (("rsp", "rbx"), ("esp", "ebx")):
        for sc in (2, 4, 8):
            for t in ("mov rax, [%s+%s*%d]" % (b, sp, sc), "mov rax, [%s+%d*%s]" % (b, sc, sp), "mov rax, [%d*%s]" % (sc, sp),
                      "lea rax, [%s+%s*%d+0x10]" % (b, sp, sc), "paddb xmm1, [%s+%s*%d]" % (b, sp, sc)):
                yield {"cat": "spidx", "text": t, "must": True, "how": "scaled"}
        for t in ("mov rax, [%s+%s]" % (sp, sp), "mov rax, [%s+%s*1]" % (sp, sp), "mov rax, [%s+%s+0x10]" % (sp, sp),
                  "lea rax, [%s+%s]" % (sp, sp), "mov [%s+%s], rax" % (sp, sp)):
            yield {"cat": "spidx", "text": t, "must": True, "how": "base+index"}
    for t in ("mov rax, [rbx", "mov rax, [rbx+rcx", "mov [rbx, rax", "mov rax, [[rbx]", "mov rax, [rbx+0x10", "inc dword [rbx",
              "vpaddd ymm1, ymm2, [rbx", "lea rax, [rbx+rcx*2"):
        yield {"cat": "bracket", "text": t, "must": True, "how": "unclosed" if "[[" not in t else "nested"}
    for t in ("mov rax, rbx]", "mov rax], rbx"):
        yield {"cat": "bracket", "text": t, "must": False, "how": "stray-close"}
    for t in ("mov , rax", "mov rax,, rbx", "mov rax,", "add rax, , 1", "vpaddd ymm1,, ymm2, ymm3", "vpaddd ymm1, ymm2,",
              "shld rax, , 5", "push ,", "mov ,"):
        yield {"cat": "empty", "text": t, "must": True}
    for t in ("add rax, 1, rbx", "mov rax, 5, 6", "push 1, rax", "shl rax, 1, rcx", "imul rax, rbx, 5, rcx", "mov rax, 0x10, [rbx]",
              "xabort 1, 2", "rorx rax, rbx, 5, rcx"):
        yield {"cat": "afterimm", "text": t, "must": True}


BYTE_LINES = ["mov rax, rbx", "add rax, 0x10", "mov rax, [rbx+rcx*2+0x10]", "vpaddd ymm1, ymm2, ymm3", "jmp 0x4", "ret",
              "lea r15, [rax+rsp]", "push rax", "mov byte [rbx], 1", "nop5", "setne al", "mov rax, 0x1122334455667788"]


def gen_bytes(tier):
    for ln in BYTE_LINES:
        for pos in range(len(ln) + 1):
            for b in range(0x7f, 0x100):
                for mode in ("insert", "replace"):
                    if mode == "replace" and pos >= len(ln):
                        continue
                    if tier == "quick" and mode == "replace" and (b % 8):
                        continue
                    raw = ln.encode()
                    t = raw[:pos] + bytes([b]) + (raw[pos:] if mode == "insert" else raw[pos + 1:])
                    yield {"cat": "byte", "text": t.decode("latin-1"), "must": True, "byte": "%02x" % b, "mode": mode,
                           "high": "1" if b >= 0x80 else "0"}
        # control characters: enumerated, reported only (the library drops them; not in the property's enumeration)
        for b in (1, 7, 8, 0x0b, 0x0c, 0x1b, 0x1f):
            t = ln[:3] + chr(b) + ln[3:]
            yield {"cat": "ctrl", "text": t, "must": False, "byte": "%02x" % b}


PLACEMENTS = {"alone": ("", ""), "first": ("", "nop\nret\n"), "middle": ("nop\n", "ret\n"), "last": ("nop\nnop\n", "")}
PREFIX_LEN = {"alone": 0, "first": 0, "middle": 1, "last": 2}


def run_cases(rep, cases, cfgs, places):
    lines = []
    meta = []
    for c in cases:
        for pl in places:
            pre, post = PLACEMENTS[pl]
            prog = pre + c["text"] + "\n" + post
            for cfg in cfgs:
                lines.append("c256:p:cc\t%s\tA%s" % (hexec.cfg_ops(cfg), hexec.esc(prog)))
                meta.append((c, pl, cfg))
    res = hexec.run(lines)
    for (c, pl, cfg), obs in zip(meta, res):
        rep.evaluations += 1
        rep.traces += 1
        disc = set()
        if hexec.is_crash(obs):
            disc.add("crash")
            a = None
        else:
            a = hexec.Asm(obs[-1])
            if c["must"]:
                if a.ret == 0:
                    disc.add("accepted")
                elif a.hi > PREFIX_LEN[pl]:
                    disc.add("emitted")
            else:
                key = "no_demand_accepted" if a.ret == 0 else "no_demand_rejected"
                rep.extra[key] = rep.extra.get(key, 0) + 1
        rep.outcomes.add((c["cat"], a.ret if a else "crash"))
        if disc:
            at = {k: v for k, v in c.items() if k not in ("text", "must")}
            at.update({"class": c["cat"], "place": pl, "cfg": "/".join(cfg)})
            rep.fail(at, disc, {"text": c["text"], "place": pl, "cfg": list(cfg)},
                     "%r (%s, %s) -> %s" % (c["text"], pl, "/".join(cfg), obs[-1] if obs else obs))
    rep.states += len(cases)
    rep.distinct_n += sum(1 for c in cases if c["must"])


def replay(r, verbose=False):
    pre, post = PLACEMENTS[r["place"]]
    prog = pre + r["text"] + "\n" + post
    obs = hexec.run(["c256:p:cc\t%s\tA%s" % (hexec.cfg_ops(tuple(r["cfg"])), hexec.esc(prog))], nproc=1)[0]
    if verbose:
        print(repr(prog), obs)
    if hexec.is_crash(obs):
        return True
    a = hexec.Asm(obs[-1])
    return a.ret == 0 or a.hi > PREFIX_LEN[r["place"]]


def run(tier, seed):
    rep = Report(PROP, tier, seed)
    KNOWN_NOW.clear()
    KNOWN_NOW.update(n for n in tree_names() if n in X86_OTHER_REGS)
    rep.bounds["names_of_other_x86_registers_the_tree_knows"] = sorted(KNOWN_NOW)
    cfgs3 = hexec.QUICK_CFGS
    one = [hexec.DEFAULT_CFG]
    rep.rule = ("every named mnemonic (%d) x every operand-kind tuple of length 0..4 over {scalar, XMM, YMM, memory, immediate} "
                "(781 tuples; must-reject iff x86-64 defines no form with that tuple); unknown mnemonics; every single-character "
                "deletion / substitution / insertion of register names in register, base and index position; scales other "
                "than 1,2,4,8; stack pointer as scaled index or as base and index; unclosed brackets; empty operands; operand "
                "after an immediate; every byte 0x7f..0xff inserted at / replacing every position of 12 lines; each placed "
                "alone, first, in the middle and last of a program; oracle: EXIT_FAILURE and nothing written from the rejected "
                "line's start on. distinct_nontrivial = distinct must-reject lines" % len(MNEMONICS))
    plan = [
        ("kind tuples", lambda: gen_kinds(tier), one if tier == "quick" else cfgs3, ("alone",) if tier == "quick" else ("alone", "middle")),
        ("unknown mnemonics", gen_unknown_mnemonic, cfgs3, tuple(PLACEMENTS)),
        ("register typos", lambda: gen_regtypos(tier), one, ("alone", "last")),
        ("memory syntax / empty / after-immediate", gen_memsyntax, hexec.CONFIGS if tier == "thorough" else cfgs3, tuple(PLACEMENTS)),
        ("invalid memory expressions x encoding classes", gen_memclasses, hexec.CONFIGS if tier == "thorough" else cfgs3,
         ("alone", "middle") if tier == "quick" else tuple(PLACEMENTS)),
        ("bytes above 0x7e", lambda: gen_bytes(tier), one, ("alone", "middle") if tier == "quick" else tuple(PLACEMENTS)),
    ]
    for name, gen, cfgs, places in plan:
        if rep.expired():
            rep.cut_short("block %s not run" % name)
            continue
        cases = list(gen())
        step = 150000
        for k in range(0, len(cases), step):
            run_cases(rep, cases[k:k + step], cfgs, places)
        rep.bounds[name] = len(cases)
        mid = cases[len(cases) // 2]
        rep.sample({"block": name, "text": mid["text"], "must_reject": mid["must"]})
    rep.transitions = rep.evaluations
    rep.assumptions = ["the must-reject set is the kind-level projection of the Intel SDM written in mc/props/c10.py; tuples "
                       "that x86-64 defines but the library does not support carry no demand",
                       "a token starting with a digit is a number, not a misspelt register"]
    return rep.finish(replay)
