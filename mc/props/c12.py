"""C12 — option setters compose as documented (explicit-state BFS over the real API + unreduced sequences)."""
import itertools

from .. import hexec, models
from ..report import Report

PROP = "C12"
TRANS = [(s, v) for s in models.SETTERS for v in models.VALS]


def probe_ops():
    return "\t".join("o0\tA" + p for p in models.PROBES)


def hist_one(seq):
    ops = ["c64:p:cc"] + ["%s%d" % (s, v) for s, v in seq] + [probe_ops(), "S"]
    return "\t".join(ops)


def observe(obs, nset):
    """-> (probe classes tuple, opt byte) from the observation list of hist_one."""
    if hexec.is_crash(obs):
        return ("crash",), None
    pr = [o for o in obs if o.startswith("A:")]
    cls = tuple(models.classify_probe(i, hexec.Asm(o).hex if hexec.Asm(o).ret == 0 else "fail")
                for i, o in enumerate(pr[-4:]))
    s = [o for o in obs if o.startswith("S:")]
    try:
        opt = int(s[-1].split(":")[6]) if s else None
    except (IndexError, ValueError):
        opt = None          # struct dump unavailable on this tree (internal refactoring): the probes alone identify the state
    return cls, opt


def model_after(seq):
    st = models.INIT
    for s, v in seq:
        st = models.opt_step(st, s, v)
    return st


def seq_str(seq):
    return " ".join("%s(%s)" % ({"m": "asm_mov_imm", "w": "asm_sib_index_base_swap", "b": "asm_sib_no_base",
                                 "s": "asm_sib", "a": "asm_set_all"}[s], models.NAMES[v]) for s, v in seq)


def check_single(rep, seqs, phase):
    res = hexec.run([hist_one(q) for q in seqs])
    out = []
    for q, obs in zip(seqs, res):
        rep.evaluations += 1
        rep.traces += 1
        cls, opt = observe(obs, len(q))
        want = models.expected_probe_classes(model_after(q))
        rep.outcomes.add(cls)
        if cls != want:
            disc = ["crash"] if cls == ("crash",) else ["probe%d" % i for i in range(4) if i >= len(cls) or cls[i] != want[i]]
            rep.fail({"class": phase, "sequence": seq_str(q), "last": q[-1][0] + models.NAMES[q[-1][1]] if q else ""},
                     disc, {"kind": "single", "seq": [list(x) for x in q]},
                     "after [%s] observed %s, documented %s" % (seq_str(q), cls, want))
        out.append((cls, opt))
    return out


def replay(r, verbose=False):
    if r["kind"] == "single":
        q = [tuple(x) for x in r["seq"]]
        obs = hexec.run([hist_one(q)], nproc=1)[0]
        cls, _ = observe(obs, len(q))
        want = models.expected_probe_classes(model_after(q))
        if verbose:
            print("sequence:", seq_str(q), "\nobserved:", cls, "\ndocumented:", want)
        return cls != want
    elif r["kind"] == "successor":
        KINDS = {"caller": "c64:p:cc", "internal": "i"}
        ops = [KINDS[r["k1"]]] + ["%s%d" % (a, b) for a, b in r["seq"]] + ["d", KINDS[r["k2"]], probe_ops()]
        obs = hexec.run(["\t".join(ops)], nproc=1, dangerous=True)[0]
        if hexec.is_crash(obs):
            return True
        pr = [o for o in obs if o.startswith("A:")]
        got = tuple(models.classify_probe(i, hexec.Asm(o).hex) for i, o in enumerate(pr[-4:]))
        if verbose:
            print(ops, got)
        return got != models.expected_probe_classes(models.INIT)
    else:
        h, want = hist_two([tuple(x) for x in r["seq"]])
        obs = hexec.run([h], nproc=1)[0]
        got = observe_two(obs)
        if verbose:
            print("history:", r["seq"], "\nobserved:", got, "\ndocumented:", want)
        return got != want


def hist_two(seq):
    """seq of (inst, setter, value) on two live instances; both probed at the end."""
    ops = ["c64:p:cc", "c64:p:cc"]
    st = [models.INIT, models.INIT]
    for i, s, v in seq:
        ops.append("@%d\t%s%d" % (i, s, v))
        st[i] = models.opt_step(st[i], s, v)
    ops.append("@0\t" + probe_ops())
    ops.append("@1\t" + probe_ops())
    return "\t".join(ops), (models.expected_probe_classes(st[0]), models.expected_probe_classes(st[1]))


def observe_two(obs):
    if hexec.is_crash(obs):
        return ("crash",)
    pr = [o for o in obs if o.startswith("A:")]
    a = tuple(models.classify_probe(i, hexec.Asm(o).hex) for i, o in enumerate(pr[0:4]))
    b = tuple(models.classify_probe(i, hexec.Asm(o).hex) for i, o in enumerate(pr[4:8]))
    return (a, b)


def run(tier, seed):
    rep = Report(PROP, tier, seed)
    rep.rule = ("BFS over the real setters from a new instance: a state is a setter history, deduplicated by "
                "(raw assembly_opt byte, classes of four probe lines); every one of the 20 transitions "
                "(5 setters x {STRICT,NASM,SMART,3,-1,99}) is taken from every state and compared with the documented "
                "semantics; plus all setter sequences up to the depth bound without deduplication and all "
                "interleaved sequences on two live instances. distinct_nontrivial = distinct (history) cases whose "
                "last setter has a documented effect")
    # --- explicit-state BFS to fixpoint -----------------------------------------------------------------
    seen = {}
    frontier = [()]
    first = check_single(rep, frontier, "bfs")
    seen[first[0]] = ()
    depth = 0
    ntrans = 0
    while frontier:
        depth += 1
        cand = [q + (t,) for q in frontier for t in TRANS]
        obs = check_single(rep, cand, "bfs")
        ntrans += len(cand)
        nxt = []
        for q, k in zip(cand, obs):
            if k not in seen:
                seen[k] = q
                nxt.append(q)
        frontier = nxt
    rep.states = len(seen)
    rep.transitions = ntrans
    rep.bounds["bfs_depth_to_fixpoint"] = depth
    rep.extra["bfs_states"] = {str(k): seq_str(v) for k, v in seen.items()}
    if len(seen) != 12:
        rep.fail({"class": "statecount"}, ["states"], {"kind": "single", "seq": []},
                 "reachable option states: %d, documented 12" % len(seen))
    # --- all sequences up to depth without deduplication ------------------------------------------------------
    maxd = 3 if tier == "quick" else 4      # 55 transitions: 169 455 / 9.3 M sequences
    for d in range(1, maxd + 1):
        if rep.expired():
            rep.cut_short("sequence depth %d not run" % d)
            break
        seqs = list(itertools.product(TRANS, repeat=d))
        check_single(rep, seqs, "seq%d" % d)
        rep.distinct_n += sum(1 for q in seqs if q[-1][1] in (0, 1, 2))
        rep.bounds["unreduced_sequence_depth"] = d
    # --- two live instances -------------------------------------------------------------------------------
    lab = [(i, s, v) for i in (0, 1) for s, v in TRANS]
    maxd2 = 2 if tier == "quick" else 3
    for d in range(1, maxd2 + 1):
        if rep.expired():
            rep.cut_short("two-instance depth %d not run" % d)
            break
        seqs = list(itertools.product(lab, repeat=d))
        hs = [hist_two(q) for q in seqs]
        res = hexec.run([h for h, _ in hs])
        for q, (h, want), obs in zip(seqs, hs, res):
            rep.evaluations += 1
            rep.traces += 1
            got = observe_two(obs)
            rep.outcomes.add(got)
            if got != want:
                rep.fail({"class": "two-instances", "sequence": str(q)}, ["crash"] if got == ("crash",) else ["probe"],
                         {"kind": "two", "seq": [list(x) for x in q]},
                         "two instances, history %s: observed %s, documented %s" % (q, got, want))
        rep.distinct_n += len(seqs)
        rep.bounds["two_instance_depth"] = d
    # --- successor instances: whatever an instance was set to when it was destroyed, the next one starts as documented ----
    # (all 12 states, reached by setter sequences of depth <= 2; predecessor and successor each with a caller buffer and with
    #  a library-managed one - a pool or cache of destroyed instances would sit exactly here)
    KINDS = {"caller": "c64:p:cc", "internal": "i"}
    want0 = models.expected_probe_classes(models.INIT)
    seqs = [()] + [(t,) for t in TRANS] + list(itertools.product(TRANS, repeat=2))
    hs, meta = [], []
    for q in seqs:
        for k1 in KINDS:
            for k2 in KINDS:
                ops = [KINDS[k1]] + ["%s%d" % (sname, v) for sname, v in q] + ["d", KINDS[k2], probe_ops()]
                hs.append("\t".join(ops))
                meta.append((q, k1, k2))
    res = hexec.run(hs, dangerous=True)
    reached = set()
    for (q, k1, k2), obs in zip(meta, res):
        rep.evaluations += 1
        rep.traces += 1
        reached.add(model_after(q))
        if hexec.is_crash(obs):
            got = ("crash",)
        else:
            pr = [o for o in obs if o.startswith("A:")]
            got = tuple(models.classify_probe(i, hexec.Asm(o).hex) for i, o in enumerate(pr[-4:]))
        rep.outcomes.add(("successor", got))
        if got != want0:
            rep.fail({"class": "successor", "first": k1, "second": k2, "sequence": seq_str(q)},
                     ["crash"] if got == ("crash",) else ["probe"], {"kind": "successor", "seq": [list(x) for x in q], "k1": k1, "k2": k2},
                     "instance (%s) set by [%s] and destroyed, then a new instance (%s): observed %s, documented %s" %
                     (k1, seq_str(q), k2, got, want0))
    rep.distinct_n += len(meta)
    rep.bounds["successor_instances"] = {"histories": len(meta), "predecessor_states_reached": len(reached)}
    rep.sample({"history": seq_str((("a", 0), ("m", 2), ("s", 1))), "model_state": "SMART/NASM/NASM"})
    rep.sample({"history": hist_one((("a", 0), ("b", 99)))})
    rep.sample({"history": hist_two(((0, "a", 0), (1, "m", 1)))[0]})
    rep.assumptions = ["probe-line byte patterns for each option state are taken from src/assemblyline.h comments and README",
                       "an enum value outside STRICT/NASM/SMART is represented by 99"]
    return rep.finish(replay)
