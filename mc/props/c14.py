"""C14 — chunk counting reports exactly the boundary-crossing instructions (E2)."""
import itertools

from .. import hexec, lengths, models
from ..report import Report

PROP = "C14"


def verify(rep, jobs, L, phase):
    """jobs: dict(start, calls=[(kind, c, [lengths])]) kind 'N' counting / 'A' plain."""
    hs = []
    for j in jobs:
        ops = ["c%d:p:cc" % j.get("n", 512), "o%d" % j["start"]]
        for kind, c, ls in j["calls"]:
            text = hexec.esc("\n".join(L[l][0] for l in ls) + "\n")
            if kind == "n":
                ops.append("n%d:%s" % (c, hexec.esc(j["path"])))
            else:
                ops.append("N%d:%s" % (c, text) if kind == "N" else "A" + text)
        hs.append("\t".join(ops))
    res = hexec.run(hs, variant="asan")
    for j, obs in zip(jobs, res):
        rep.evaluations += 1
        rep.traces += 1
        rep.transitions += len(j["calls"])
        disc = set()
        if hexec.san_of(obs):
            disc.add("sanitizer")
        if hexec.is_crash(obs):
            disc.add("crash")
        else:
            asm = [hexec.Asm(o) for o in obs if o[:2] in ("A:", "N:", "n:")]
            pos = j["start"]
            for a, (kind, c, ls) in zip(asm, j["calls"]):
                want = "".join(L[l][1] for l in ls)
                if a.ret != 0:
                    disc.add("rejected")
                    break
                if a.off != pos + len(want) // 2:
                    disc.add("offset")
                if a.hex[:len(want)] != want:
                    disc.add("bytes")
                if a.hi > max(a.off, 0) or (a.lo != -1 and a.lo < pos):
                    disc.add("outside")
                if kind in ("N", "n"):
                    wc = models.count_breaks(pos, ls, c)
                    if a.dest != wc:
                        disc.add("count")
                    rep.outcomes.add((c, a.dest))
                pos = a.off
        if disc:
            kinds = "".join(k for k, _, _ in j["calls"])
            cs = [c for _, c, _ in j["calls"]]
            rep.fail({"class": phase, "kinds": kinds, "chunk": str(cs[0]), "after_counting": "1" if "NA" in kinds else "0"},
                     disc, {"job": j},
                     "start %d calls %s: %s %s" % (j["start"], j["calls"], sorted(disc), obs if len(str(obs)) < 300 else ""))


def replay(r, verbose=False):
    L = lengths.by_length()
    rep = Report(PROP, "quick", 0)
    rep.findings = []
    if r.get("kind") == "big":
        kind, target, c, start = r["case"]
        if kind == "short":
            seq = [10, 10, 3, 10, 10, 5, 10, 10]
        else:
            cyc = [l for l in (10, 3, 1, 7, 5, 10, 2) if l in L]
            seq, tot = [], 0
            while tot < target:
                seq.append(cyc[len(seq) % len(cyc)])
                tot += seq[-1]
        obs = hexec.run(["i\to%d\tN%d:%s" % (start, c, hexec.esc("".join(L[l][0] + "\n" for l in seq)))], dangerous=True, nproc=1,
                        timeout=30)[0]
        if hexec.is_crash(obs):
            return True
        a = hexec.Asm(next(o for o in obs if o[:2] == "N:"))
        if verbose:
            print(r["case"], a.ret, a.off, a.dest, models.count_breaks(start, seq, c))
        return a.ret != 0 or a.dest != models.count_breaks(start, seq, c) or a.off != start + sum(seq)
    j = r["job"]
    j["calls"] = [(k, c, list(ls)) for k, c, ls in j["calls"]]
    verify(rep, [j], L, "replay")
    if verbose:
        print(j, "->", [p[3] for p in rep.pending])
    return bool(rep.pending)


def run(tier, seed):
    rep = Report(PROP, tier, seed)
    L = lengths.by_length()
    lens = sorted(L)
    rep.rule = ("every (chunk size c, start position p < c, instruction length l) for c in -1,0,1,2..40,64,100000; all "
                "sequences of <= 3/4 instructions over 7 lengths at every p for c in {2,3,4,5,8,16}; two consecutive counting "
                "calls and counting after plain assembly; oracle: bytes = plain bytes, *dest = number of instructions with "
                "floor(q/c) != floor((q+l-1)/c) in this call only, c < 2 => 0. distinct_nontrivial = distinct cases with at "
                "least one crossing instruction")
    cs = [-1, 0, 1] + list(range(2, 41)) + [64, 100000]
    jobs = []
    nontriv = 0
    for c in cs:
        ps = range(c) if 2 <= c <= 64 else (0, 1, 5, 63)
        for p in ps:
            for l in lens:
                jobs.append({"start": p, "calls": [("N", c, [l])]})
                nontriv += models.count_breaks(p, [l], c) > 0
    verify(rep, jobs, L, "triple")
    rep.bounds["cpl_triples"] = len(jobs)
    rep.states += len(jobs)
    alpha = [l for l in (1, 2, 3, 5, 7, 10, max(lens)) if l in L]
    jobs = []
    for c in (2, 3, 4, 5, 8, 16):
        for p in range(c):
            for k in ((2, 3) if tier == "quick" else (2, 3, 4)):
                if k == 4 and c in (3, 5):
                    continue
                for seq in itertools.product(alpha, repeat=k):
                    jobs.append({"start": p, "calls": [("N", c, list(seq))]})
                    nontriv += models.count_breaks(p, seq, c) > 0
    if tier == "thorough":
        # deeper: every ordered pair over ALL harvested lengths at every (c, p) for c in 2..40
        for c in range(2, 41):
            for p in range(c):
                for seq in itertools.product(lens, repeat=2):
                    jobs.append({"start": p, "calls": [("N", c, list(seq))]})
                    nontriv += models.count_breaks(p, seq, c) > 0
    if not rep.expired():
        verify(rep, jobs, L, "sequence")
        rep.bounds["sequences"] = len(jobs)
        rep.states += len(jobs)
    jobs = []
    # (chunk sizes of both kinds in both orders: a value cached by one counting call - a mask, a reciprocal - must not
    #  serve the next one)
    for c1, c2 in itertools.product((0, 2, 3, 4, 5, 8, 12, 16, 24), repeat=2):
        for p in range(0, 8):
            for l1, l2 in itertools.product((1, 3, 5, 10), repeat=2):
                jobs.append({"start": p, "calls": [("N", c1, [l1, l2]), ("N", c2, [l2, l1, l2])]})
                jobs.append({"start": p, "calls": [("A", 0, [l1, l2]), ("N", c2, [l2, l1])]})
    if not rep.expired():
        verify(rep, jobs, L, "repeated")
        rep.bounds["repeated_call_histories"] = len(jobs)
        rep.states += len(jobs)
    # the file entry point of the counting call (same model); the result variable is poisoned before every call
    if not rep.expired():
        import os
        import shutil
        tmp = hexec.tmpdir()
        try:
            jobs = []
            k = 0
            for c in (-1, 0, 1, 2, 4, 16):
                for p in (0, 3):
                    for seq in itertools.product(alpha[:5], repeat=3):
                        path = os.path.join(tmp, "p%d.asm" % k)
                        k += 1
                        with open(path, "w") as f:
                            f.write("".join(L[l][0] + "\n" for l in seq))
                        jobs.append({"start": p, "calls": [("n", c, list(seq))], "path": path})
                        nontriv += models.count_breaks(p, seq, c) > 0
            verify(rep, jobs, L, "file")
            rep.bounds["file_entry_cases"] = len(jobs)
            rep.states += len(jobs)
        finally:
            shutil.rmtree(tmp, ignore_errors=True)
    # chunk sizes at and above the size of a library-managed buffer, with programs that grow the buffer past the chunk size
    # ("c larger than the program" and "c smaller than the program" meet when the buffer length changes during the call)
    if not rep.expired():
        cyc = [l for l in (10, 3, 1, 7, 5, 10, 2) if l in L]
        progs = {}
        for target in (6500, 13000):
            seq = []
            tot = 0
            while tot < target:
                l = cyc[len(seq) % len(cyc)]
                seq.append(l)
                tot += l
            progs[target] = seq
        hs, meta = [], []
        for target, seq in progs.items():
            text = hexec.esc("".join(L[l][0] + "\n" for l in seq))
            hs.append("i\tA%s" % text)
            meta.append(("plain", target, 0, 0))
            for c in (5999, 6000, 6001, 6019, 6020, 6021, 6100, 7001, 12019, 12020, 12021, 12500, 100000):
                for start in (0, 7):
                    hs.append("i\to%d\tN%d:%s" % (start, c, text))
                    meta.append(("count", target, c, start))
        # a short program placed just below the end of the initial buffer
        short = [10, 10, 3, 10, 10, 5, 10, 10]
        stext = hexec.esc("".join(L[l][0] + "\n" for l in short))
        for start in (5990, 6000, 6010, 6015):
            for c in (6010, 6020, 6030, 6050):
                hs.append("i\to%d\tN%d:%s" % (start, c, stext))
                meta.append(("short", 0, c, start))
        res = hexec.run(hs, dangerous=True, timeout=30)
        plain = {}
        for (kind, target, c, start), obs in zip(meta, res):
            rep.evaluations += 1
            rep.traces += 1
            if hexec.is_crash(obs):
                rep.fail({"class": "big-chunk", "chunk": str(c), "start": str(start)}, ["crash"], {"kind": "big", "case": [kind, target, c, start]},
                         "internal buffer, chunk %d, start %d: %s" % (c, start, obs[-1][:60]))
                continue
            a = hexec.Asm(next(o for o in obs if o[:2] in ("A:", "N:")))
            if kind == "plain":
                plain[target] = (a.ret, a.off)
                continue
            seq = short if kind == "short" else progs[target]
            want = models.count_breaks(start, seq, c)
            nontriv += want > 0
            disc = set()
            if a.ret != 0:
                disc.add("rejected")
            elif a.dest != want:
                disc.add("count")
            elif a.off != start + sum(seq):
                disc.add("offset")
            rep.outcomes.add(("big", c, a.dest))
            if disc:
                rep.fail({"class": "big-chunk", "chunk": str(c), "start": str(start), "kind": kind}, disc,
                         {"kind": "big", "case": [kind, target, c, start]},
                         "internal buffer, %d-byte program, counting chunk %d from offset %d: count %s, model %d, ret %s off %s" %
                         (sum(seq), c, start, a.dest, want, a.ret, a.off))
        rep.bounds["big_chunk_cases_on_growing_buffer"] = len(meta)
        rep.states += len(meta)
    rep.distinct_n = int(nontriv)
    rep.sample({"start": 3, "chunk": 4, "lengths": [3, 5], "model_count": models.count_breaks(3, [3, 5], 4)})
    rep.sample({"start": 0, "chunk": 16, "lengths": [10, 10], "model_count": models.count_breaks(0, [10, 10], 16)})
    rep.assumptions = ["precondition of the statement respected: fitting is never enabled on these instances"]
    return rep.finish(replay)
