"""C19 — file entry points equal their in-memory counterparts (E2 + file-mapping layout seam)."""
import os
import shutil

from .. import hexec
from ..report import Report

PROP = "C19"
PAGE = 4096


def content(size, ending):
    """A valid program of exactly `size` bytes.  ending: 'nl' (ends with newline), 'none' (last instruction touches the last
    byte), 'crlf', 'comment' (ends inside a comment)."""
    tail = {"nl": "ret\n", "none": "ret", "crlf": "ret\r\n", "comment": "ret\n;x"}[ending]
    if size < len(tail):
        # tiny files: blank / comment only / partial
        return ("\n" * size) if ending == "nl" else (";" * size if ending == "comment" else ("nop\n" * 20)[:size] if ending != "crlf" else ("\r\n" * size)[:size])
    body = size - len(tail)
    s = "nop\n" * (body // 4)
    rest = body - len(s)
    if rest:
        s = s[:-4 * min(len(s) // 4, 2)] if False else s
        # pad with a comment line of the exact remaining length (rest >= 1): ';' * (rest-1) + newline
        s += ";" * (rest - 1) + "\n"
    return s + tail


def content_mixed(size):
    """A valid program of exactly `size` bytes made of instructions of several lengths (so that chunk fitting pads)."""
    parts = []
    left = size
    for ln in ("mov rax, 0x1122334455667788\n", "add rcx, 0x12345678\n", "add rax, rbx\n", "nop\n"):
        while left - len(ln) >= 0 and (left - len(ln) == 0 or left - len(ln) >= 4) and len(parts) < 400:
            parts.append(ln)
            left -= len(ln)
            if ln.startswith("mov") and len(parts) % 3 == 0:
                break
    if left:
        parts.append(";" * (left - 1) + "\n" if left > 1 else "\n")
    text = "".join(parts)
    return text if len(text) == size else None


SETTINGS = [("fit8", "k8"), ("fit16-strict", "a0\tk16"), ("offset7", "o7"), ("fit4-offset3", "k4\to3")]


def sizes(tier):
    out = list(range(0, 65))
    for k in (1, 2, 3):
        out += list(range(k * PAGE - 8, k * PAGE + 9))
    if tier == "thorough":
        out += list(range(65, 301)) + [1000, 16 * PAGE]
        for k in (1, 2, 3):
            out += list(range(k * PAGE - 40, k * PAGE - 8)) + list(range(k * PAGE + 9, k * PAGE + 41))
        for k in (4, 5, 8):
            out += list(range(k * PAGE - 8, k * PAGE + 9))
    return out


def run(tier, seed):
    rep = Report(PROP, tier, seed)
    tmp = hexec.tmpdir()
    rep.rule = ("files of every size 0..64 and every size within +-8 of 1, 2 and 3 pages (thorough: 0..300, +-40 of 1-3 pages, +-8 of 4, 5, 8 pages), filled with a valid program ending with "
                "a newline / with the last instruction touching the last byte / with CRLF / inside a comment; both file entry "
                "points (plain and counting) against the string entry points on the same contents (return value, offset, bytes, "
                "count), on fresh instances and on instances with chunk fitting / STRICT options / a start offset set and a "
                "mixed-length program, and as two and three successive file calls on one instance (11 x 11 sizes, both endings, all four entry-point pairs; 7 x 7 x 7 sizes in four entry-point patterns); file mappings are placed flush against a PROT_NONE page (wrap seam) so that reading past the mapping "
                "faults deterministically; missing path, directory; asm_create_bin_file at offsets {0,1,17,6000,6001,12500} and "
                "into a missing directory. distinct_nontrivial = distinct (size, ending, entry point) cases")
    try:
        jobs = []
        for sz in sizes(tier):
            for ending in ("nl", "none", "crlf", "comment"):
                text = content(sz, ending)
                if len(text) != sz:
                    continue
                path = os.path.join(tmp, "f%d_%s.asm" % (sz, ending))
                with open(path, "w", newline="") as f:
                    f.write(text)
                jobs.append((sz, ending, text, path))
        hs = []
        meta = []
        for sz, ending, text, path in jobs:
            for kind in ("plain", "count", "count0", "count1"):
                n = 65536
                if kind == "plain":
                    hs.append("ZG\tc%d:p:cc\tf%s" % (n, hexec.esc(path)))
                    hs.append("ZG\tc%d:p:cc\tA%s" % (n, hexec.esc(text)))
                else:
                    c = {"count": 16, "count0": 0, "count1": 1}[kind]
                    if kind != "count" and sz % 7:
                        continue           # chunk sizes below 2 on every seventh size
                    hs.append("ZG\tc%d:p:cc\tn%d:%s" % (n, c, hexec.esc(path)))
                    hs.append("ZG\tc%d:p:cc\tN%d:%s" % (n, c, hexec.esc(text)))
                meta.append((sz, ending, kind, path))
        res = hexec.run(hs, variant="wrap", dangerous=True, timeout=20)
        for i, (sz, ending, kind, path) in enumerate(meta):
            of, os_ = res[2 * i], res[2 * i + 1]
            rep.evaluations += 2
            rep.traces += 1
            rep.transitions += 2
            disc = set()

            def summ(o):
                if hexec.is_crash(o):
                    return ("crash", o[-1])
                a = hexec.Asm(next(x for x in o if x[:2] in ("f:", "n:", "A:", "N:")))
                return (a.ret, a.off, a.hex, a.dest)
            sf, ss = summ(of), summ(os_)
            if sf[0] == "crash":
                disc.add("crash")
            elif sf != ss:
                disc.add("differs-from-string-call")
            rep.outcomes.add((sf[0], sf[1] if sf[0] != "crash" else 0))
            rep.distinct_n += 1
            if disc:
                rep.fail({"class": "size", "size": str(sz), "ending": ending, "entry": kind,
                          "pagemult": "1" if sz and sz % PAGE == 0 else "0", "empty": "1" if sz == 0 else "0"},
                         disc, {"kind": "size", "size": sz, "ending": ending, "entry": kind},
                         "file of %d bytes (%s), %s entry point: file %s, string %s" % (sz, ending, kind, str(sf)[:80], str(ss)[:80]))
        rep.states += len(meta)
        rep.bounds["sizes"] = len(sizes(tier))
        # the same equivalence on instances that are not in their initial state: chunk fitting, options, start offset
        hs = []
        meta = []
        for sz in [x for x in sizes(tier) if x >= 4]:
            text = content_mixed(sz)
            if text is None:
                continue
            path = os.path.join(tmp, "m%d.asm" % sz)
            with open(path, "w", newline="") as f:
                f.write(text)
            for sname, sops in SETTINGS:
                for kind in ("plain", "count", "count0", "count1"):
                    if kind == "plain":
                        hs.append("ZG\tc65536:p:cc\t%s\tf%s" % (sops, hexec.esc(path)))
                        hs.append("ZG\tc65536:p:cc\t%s\tA%s" % (sops, hexec.esc(text)))
                    else:
                        c = {"count": 16, "count0": 0, "count1": 1}[kind]     # c < 2 on an instance that has fitting enabled
                        if kind != "count" and sz % 5:
                            continue
                        hs.append("ZG\tc65536:p:cc\t%s\tn%d:%s" % (sops, c, hexec.esc(path)))
                        hs.append("ZG\tc65536:p:cc\t%s\tN%d:%s" % (sops, c, hexec.esc(text)))
                    meta.append((sz, sname, kind))
        res = hexec.run(hs, variant="wrap", dangerous=True, timeout=20)
        for i, (sz, sname, kind) in enumerate(meta):
            of, os_ = res[2 * i], res[2 * i + 1]
            rep.evaluations += 2
            rep.traces += 1

            def summ2(o):
                if hexec.is_crash(o):
                    return ("crash", o[-1])
                a = hexec.Asm(next(x for x in o if x[:2] in ("f:", "n:", "A:", "N:")))
                return (a.ret, a.off, a.hex, a.dest)
            sf, ss = summ2(of), summ2(os_)
            rep.distinct_n += 1
            if sf != ss:
                rep.fail({"class": "settings", "size": str(sz), "setting": sname, "entry": kind},
                         ["crash" if sf[0] == "crash" else "differs-from-string-call"],
                         {"kind": "settings", "size": sz, "setting": sname, "entry": kind},
                         "mixed file of %d bytes on an instance with %s, %s entry point: file %s, string %s" %
                         (sz, sname, kind, str(sf)[:70], str(ss)[:70]))
        rep.states += len(meta)
        rep.bounds["instance_settings"] = [n for n, _ in SETTINGS]
        # successive file calls on ONE instance (longer then shorter, shorter then longer, empty in between): anything the
        # entry point keeps from one call to the next (a buffer, a length) shows here and nowhere else
        files = {(sz, ending): (text, path) for sz, ending, text, path in jobs}
        S2 = [x for x in (0, 1, 5, 6, 13, 40, 64, PAGE - 1, PAGE, PAGE + 1, 2 * PAGE) if (x, "nl") in files or (x, "none") in files]
        hs = []
        meta = []
        for s1 in S2:
            for s2 in S2:
                for e1 in ("nl", "none"):
                    for e2 in ("nl", "none"):
                        if (s1, e1) not in files or (s2, e2) not in files:
                            continue
                        (t1, p1), (t2, p2) = files[(s1, e1)], files[(s2, e2)]
                        for k1 in "fn":
                            for k2 in "fn":
                                fo = [("f%s" % hexec.esc(pp)) if k == "f" else ("n16:%s" % hexec.esc(pp)) for k, pp in ((k1, p1), (k2, p2))]
                                so = [("A%s" % hexec.esc(tt)) if k == "f" else ("N16:%s" % hexec.esc(tt)) for k, tt in ((k1, t1), (k2, t2))]
                                hs.append("ZG\tc65536:p:cc\t" + "\t".join(fo))
                                hs.append("ZG\tc65536:p:cc\t" + "\t".join(so))
                                meta.append((s1, e1, s2, e2, k1 + k2))
        # ... and three in a row (a length kept from the call before last, e.g. long - short - medium)
        S3 = [x for x in (0, 5, 13, 40, 64, PAGE, PAGE + 1) if (x, "nl") in files]
        for s1 in S3:
            for s2 in S3:
                for s3 in S3:
                    for e in ("nl", "none"):
                        if any((x, e) not in files for x in (s1, s2, s3)):
                            continue
                        tp = [files[(x, e)] for x in (s1, s2, s3)]
                        for ks in ("fff", "nnn", "fnf", "nfn"):
                            fo = [("f%s" % hexec.esc(pp)) if k == "f" else ("n16:%s" % hexec.esc(pp)) for k, (tt, pp) in zip(ks, tp)]
                            so = [("A%s" % hexec.esc(tt)) if k == "f" else ("N16:%s" % hexec.esc(tt)) for k, (tt, pp) in zip(ks, tp)]
                            hs.append("ZG\tc65536:p:cc\t" + "\t".join(fo))
                            hs.append("ZG\tc65536:p:cc\t" + "\t".join(so))
                            meta.append((s1, e, s2, e, ks, s3))
        res = hexec.run(hs, variant="wrap", dangerous=True, timeout=20)
        for i, m in enumerate(meta):
            of, os_ = res[2 * i], res[2 * i + 1]
            rep.evaluations += 2
            rep.traces += 1
            rep.transitions += 4

            def summ3(o):
                if hexec.is_crash(o):
                    return ("crash", o[-1])
                out = []
                for x in o:
                    if x[:2] in ("f:", "n:", "A:", "N:"):
                        a = hexec.Asm(x)
                        out.append((a.ret, a.off, a.hex, a.dest))
                return tuple(out)
            sf, ss = summ3(of), summ3(os_)
            rep.distinct_n += 1
            if sf != ss:
                rep.fail({"class": "successive", "first": str(m[0]), "second": str(m[2]), "entries": m[4], "ncalls": str(len(m[4])),
                          "order": "shrinking" if m[2] < m[0] else ("growing" if m[2] > m[0] else "same")},
                         ["crash" if sf and sf[0] == "crash" else "differs-from-string-call"],
                         {"kind": "successive", "case": list(m)},
                         "files of %d (%s) then %d (%s)%s bytes through %s on one instance: file %s, string %s" %
                         (m[0], m[1], m[2], m[3], (" then %d" % m[5]) if len(m) > 5 else "", m[4], str(sf)[:90], str(ss)[:90]))
        rep.states += len(meta)
        rep.bounds["successive_file_calls"] = len(meta)
        # bad paths
        bad = [("missing", os.path.join(tmp, "nonexistent.asm")), ("directory", tmp), ("missing-dir", os.path.join(tmp, "no/such/f.asm"))]
        hs = []
        for name, p in bad:
            hs.append("c256:p:cc\tf%s" % hexec.esc(p))
            hs.append("c256:p:cc\tn4:%s" % hexec.esc(p))
        res = hexec.run(hs, variant="wrap", dangerous=True)
        for j, o in enumerate(res):
            rep.evaluations += 1
            name = bad[j // 2][0]
            ok = (not hexec.is_crash(o)) and hexec.Asm(o[-2] if o[-1].startswith("T:") else o[-1]).ret == 1
            rep.outcomes.add((name, ok))
            if not ok:
                rep.fail({"class": "badpath", "what": name}, ["crash" if hexec.is_crash(o) else "no-failure"],
                         {"kind": "badpath", "what": name}, "%s path: %s" % (name, o))
        # permissions, exercised under an unprivileged uid (checks may run as root, for whom every file is readable):
        # a read-only file must assemble (the library needs no write access), an unreadable one must give EXIT_FAILURE
        if os.geteuid() == 0:
            pd = os.path.join(tmp, "perm")
            os.makedirs(pd)
            d = tmp
            while d.startswith(os.path.dirname(hexec.TMPROOT)) and d != "/":
                try:
                    os.chmod(d, os.stat(d).st_mode | 0o055)
                except OSError:
                    pass
                d = os.path.dirname(d)
            ro, no = os.path.join(pd, "readonly.asm"), os.path.join(pd, "unreadable.asm")
            for pth, mode in ((ro, 0o444), (no, 0o000)):
                with open(pth, "w") as f:
                    f.write("mov rax, 0x2a\nret\n")
                os.chmod(pth, mode)
            os.chmod(pd, 0o755)
            # is the scratch directory reachable at all for that uid?  (not when the tree lives below a private directory such
            # as /root: then a failure to open says nothing about the library and the cases are skipped, with a note)
            import subprocess
            import sys
            reach = subprocess.run([sys.executable, "-c", "import os,sys\nos.setgid(65534)\nos.setuid(65534)\nopen(sys.argv[1]).read()", ro],
                                   stdout=subprocess.DEVNULL, stderr=subprocess.DEVNULL).returncode == 0
            hs = []
            for pth in (ro, no) if reach else ():
                hs.append("u65534\tc256:p:cc\tf%s" % hexec.esc(pth))
                hs.append("u65534\tc256:p:cc\tn4:%s" % hexec.esc(pth))
            res = hexec.run(hs, variant="wrap", dangerous=True)
            for j, o in enumerate(res):
                rep.evaluations += 1
                want = 0 if j < 2 else 1
                name = "read-only" if j < 2 else "unreadable"
                if hexec.is_crash(o) or not o[0].startswith("u:65534"):
                    rep.extra["permission_cases"] = "could not drop privileges: %s" % (o[:1],)
                    continue
                a = hexec.Asm(next(x for x in o if x[:2] in ("f:", "n:")))
                rep.outcomes.add((name, a.ret))
                if a.ret != want or (want == 0 and a.hex != "b82a000000c3"):
                    rep.fail({"class": "permission", "what": name}, ["wrong-result"], {"kind": "badpath", "what": name},
                             "%s file under uid nobody: %s" % (name, o))
            rep.bounds["permission_cases"] = 4 if reach else 0
            if not reach:
                rep.extra["permission_cases"] = "skipped: the scratch directory %s is not reachable for uid 65534" % pd
        # binary output
        line10 = "mov rax, 0x1122334455667788\n"
        for off in (0, 1, 17, 6000, 6001, 12500):
            prog = line10 * (off // 10) + "nop\n" * (off % 10)
            out = os.path.join(tmp, "out_%d.bin" % off)
            with open(out, "wb") as f:          # the target already exists and is longer than the code: it must be replaced
                f.write(b"\xee" * 20000)
            o = hexec.run(["i\tA%s\tB%s\tG" % (hexec.esc(prog) if prog else "", hexec.esc(out))], variant="wrap", dangerous=True,
                          nproc=1)[0]
            rep.evaluations += 1
            rep.transitions += 3
            disc = set()
            if hexec.is_crash(o):
                disc.add("crash")
            else:
                b = next(x for x in o if x.startswith("B:")).split(":")
                g = next(x for x in o if x.startswith("G:"))
                data = open(out, "rb").read() if os.path.exists(out) else None
                from .c17 import fnv
                have = None if data is None else (data.hex() if len(data) <= 4096 else "#%d:%016x" % (len(data), fnv(data)))
                want = ":".join(g.split(":")[2:-1])
                if b[1] != "0" or int(b[2]) != off or have != want:
                    disc.add("bin-file-differs")
            rep.outcomes.add(("bin", off, tuple(disc)))
            if disc:
                rep.fail({"class": "binfile", "offset": str(off)}, disc, {"kind": "bin", "offset": off},
                         "asm_create_bin_file at offset %d: %s" % (off, [x[:50] for x in o]))
        # the same instance writes a long program, then a shorter one, to the same path
        out = os.path.join(tmp, "twice.bin")
        o = hexec.run(["i\tA%s\tB%s\to0\tA%s\tB%s\tG" % (hexec.esc(line10 * 700), hexec.esc(out), hexec.esc("mov rax, 0x2a\nret\n"),
                                                              hexec.esc(out))], variant="wrap", dangerous=True, nproc=1)[0]
        rep.evaluations += 1
        data = open(out, "rb").read() if os.path.exists(out) else None
        if hexec.is_crash(o) or data is None or data.hex() != "b82a000000c3":
            rep.fail({"class": "binfile", "offset": "rewrite-shorter"}, ["bin-file-differs"], {"kind": "bin", "offset": -2},
                     "asm_create_bin_file twice to the same path (7000 bytes, then 6 bytes): file holds %s bytes" %
                     (len(data) if data is not None else None))
        o = hexec.run(["i\tAnop\\n\tB%s" % hexec.esc(os.path.join(tmp, "no/such/dir/out.bin"))], variant="wrap", dangerous=True, nproc=1)[0]
        rep.evaluations += 1
        if hexec.is_crash(o) or not any(x.startswith("B:1") for x in o):
            rep.fail({"class": "binfile", "offset": "unwritable"}, ["no-failure"], {"kind": "bin", "offset": -1},
                     "asm_create_bin_file into a missing directory: %s" % o)
        rep.sample({"size": 4096, "ending": "none", "content_tail": content(4096, "none")[-12:]})
        rep.sample({"size": 5, "ending": "crlf", "content": content(5, "crlf")})
    finally:
        shutil.rmtree(tmp, ignore_errors=True)
    rep.assumptions = ["file contents are valid programs built from nop / comment filler", "unreadable-by-permission files are not "
                       "tested (checks may run as root)"]
    return rep.finish(replay)


def replay(r, verbose=False):
    tmp = hexec.tmpdir()
    try:
        if r["kind"] == "settings":
            text = content_mixed(r["size"])
            path = os.path.join(tmp, "m.asm")
            with open(path, "w", newline="") as f:
                f.write(text)
            sops = dict(SETTINGS)[r["setting"]]
            if r["entry"] == "plain":
                hs = ["ZG\tc65536:p:cc\t%s\tf%s" % (sops, hexec.esc(path)), "ZG\tc65536:p:cc\t%s\tA%s" % (sops, hexec.esc(text))]
            else:
                c = {"count": 16, "count0": 0, "count1": 1}[r["entry"]]
                hs = ["ZG\tc65536:p:cc\t%s\tn%d:%s" % (sops, c, hexec.esc(path)), "ZG\tc65536:p:cc\t%s\tN%d:%s" % (sops, c, hexec.esc(text))]
            res = hexec.run(hs, variant="wrap", dangerous=True, nproc=1, timeout=20)
            if verbose:
                print([x[:80] for x in res[0]], "\n", [x[:80] for x in res[1]])
            if hexec.is_crash(res[0]):
                return True
            a, b = [hexec.Asm(next(x for x in o if x[:2] in ("f:", "n:", "A:", "N:"))) for o in res]
            return (a.ret, a.off, a.hex, a.dest) != (b.ret, b.off, b.hex, b.dest)
        if r["kind"] == "successive":
            s1, e1, s2, e2, ks = r["case"][:5]
            sizes_ = [(s1, e1), (s2, e2)] + ([(r["case"][5], e2)] if len(r["case"]) > 5 else [])
            texts = [content(a, b) for a, b in sizes_]
            paths = [os.path.join(tmp, "f%d.asm" % k) for k in range(len(texts))]
            for pp, tt in zip(paths, texts):
                with open(pp, "w", newline="") as f:
                    f.write(tt)
            fo = [("f%s" % hexec.esc(pp)) if k == "f" else ("n16:%s" % hexec.esc(pp)) for k, pp in zip(ks, paths)]
            so = [("A%s" % hexec.esc(tt)) if k == "f" else ("N16:%s" % hexec.esc(tt)) for k, tt in zip(ks, texts)]
            res = hexec.run(["ZG\tc65536:p:cc\t" + "\t".join(fo), "ZG\tc65536:p:cc\t" + "\t".join(so)], variant="wrap",
                            dangerous=True, nproc=1, timeout=20)
            if verbose:
                print([x[:80] for x in res[0]], "\n", [x[:80] for x in res[1]])
            if hexec.is_crash(res[0]):
                return True

            def summ(o):
                return [(a.ret, a.off, a.hex, a.dest) for a in (hexec.Asm(x) for x in o if x[:2] in ("f:", "n:", "A:", "N:"))]
            return summ(res[0]) != summ(res[1])
        if r["kind"] != "size":
            return True
        text = content(r["size"], r["ending"])
        path = os.path.join(tmp, "f.asm")
        with open(path, "w", newline="") as f:
            f.write(text)
        if r["entry"] == "plain":
            hs = ["ZG\tc65536:p:cc\tf%s" % hexec.esc(path), "ZG\tc65536:p:cc\tA%s" % hexec.esc(text)]
        else:
            c = {"count": 16, "count0": 0, "count1": 1}[r["entry"]]
            hs = ["ZG\tc65536:p:cc\tn%d:%s" % (c, hexec.esc(path)), "ZG\tc65536:p:cc\tN%d:%s" % (c, hexec.esc(text))]
        res = hexec.run(hs, variant="wrap", dangerous=True, nproc=1, timeout=20)
        if verbose:
            print([x[:80] for x in res[0]], "\n", [x[:80] for x in res[1]])
        if hexec.is_crash(res[0]):
            return True
        a, b = [hexec.Asm(next(x for x in o if x[:2] in ("f:", "n:", "A:", "N:"))) for o in res]
        return (a.ret, a.off, a.hex, a.dest) != (b.ret, b.off, b.hex, b.dest)
    finally:
        shutil.rmtree(tmp, ignore_errors=True)
