"""C06 — a program's code is the concatenation of its lines' code, however it is fed (E2, relational)."""
import itertools

from .. import hexec
from ..report import Report
from . import c01, c02, c03, c04, c05

PROP = "C06"
CFGS = hexec.QUICK_CFGS
NONCODE = ["", "; just a comment", "label:", "section .text", "global f", "   ", "\t; indented comment"]


def line_set(tier):
    """~150 lines: one per distinct path through parser/encoder state, drawn from the C01-C05 generators."""
    picks = []

    def take(gen, n):
        cs = list(gen)
        step = max(1, len(cs) // n)
        picks.extend(c.text for c in cs[::step][:n])

    for _, g in c01.BLOCKS:
        take(g(), 8)
    take(c03.cases_alu("quick", 0), 22)
    take(c03.cases_shift("quick", 0), 10)
    take(c03.cases_imul_push("quick", 0), 8)
    take(c04.cases_sse(), 8)
    take(c04.cases_bmi(), 6)
    take(c04.cases_mem(), 24)
    take(c05.cases_rel("quick", 0), 16)
    take(c05.cases_indirect(), 8)
    from .. import shapes
    ks = shapes.key_shapes()
    take((c for sh in ks[::3] for c in c02.reps(sh, full=False)), 30)
    picks += ["xchg rax, rbx", "xchg rbx, rax", "xchg eax, eax", "mov rax, 0x1122334455667788", "mov rax, 0x7fffffff",
              "mov rax, 0x000000007fffffff", "lea r15, [rax+rsp]", "lea r15, [2*rax]", "nop", "nop7", "ret", "jmp 0x4",
              "jmp short 4", "jmp long 4", "call 0x1000", "push 0x7f", "push 0x80", "vpaddd ymm1, ymm10, [rbp]",
              "mov byte [rbp], 0x12", "add rax, -1", "test al, 1", "clflush [rax]", "setne [rbp+0x10]"]
    out = []
    for t in picks:
        if t not in out:
            out.append(t)
    return out


def singles(lines):
    """-> {(line, cfg): hex} for lines that assemble alone under every configuration; others are dropped."""
    hs = [hexec.single(t, cfg, n=256) for t in lines for cfg in CFGS]
    res = hexec.run(hs)
    table = {}
    k = 0
    keep = []
    for t in lines:
        ok = True
        row = {}
        for cfg in CFGS:
            o = res[k]
            k += 1
            if hexec.is_crash(o):
                ok = False
                continue
            a = hexec.Asm(o[-1])
            if a.ret != 0 or a.off < 0:
                ok = False
            else:
                row[cfg] = a.hex[:2 * a.off]
        if ok:
            keep.append(t)
            for cfg in CFGS:
                table[(t, cfg)] = row[cfg]
    return keep, table


def hist(parts, cfg, start, fill, repeat=True):
    ops = ["c1024:p:%s" % fill, hexec.cfg_ops(cfg), "o%d" % start]
    for p in parts:
        ops.append("A" + hexec.esc("\n".join(p) + "\n"))
    if repeat:
        ops.append("o%d" % start)
        ops.append("A" + hexec.esc("\n".join(l for p in parts for l in p)))   # once more, in one call, no final newline
    return "\t".join(ops)


def check(rep, jobs, table, phase):
    """jobs: list of (parts, cfg, start, fill)."""
    res = hexec.run([hist(*j) for j in jobs])
    for (parts, cfg, start, fill), obs in zip(jobs, res):
        rep.evaluations += 1
        rep.traces += 1
        rep.transitions += len(parts) + 1
        prog = [l for p in parts for l in p]
        want = "".join(table[(l, cfg)] for l in prog)
        disc = set()
        if hexec.is_crash(obs):
            disc.add("crash")
        else:
            asm = [hexec.Asm(o) for o in obs if o.startswith("A:")]
            got = ""
            pos = start
            for a, p in zip(asm[:len(parts)], parts):
                if a.ret != 0:
                    disc.add("rejected")
                    break
                w = "".join(table[(l, cfg)] for l in p)
                if a.hex[:2 * (a.off - pos)] != w or a.off - pos != len(w) // 2:
                    disc.add("bytes")
                if a.hi > a.off or (a.lo != -1 and a.lo < pos):
                    disc.add("outside")
                got += a.hex[:2 * max(0, a.off - pos)]
                pos = a.off
            if not disc and pos != start + len(want) // 2:
                disc.add("offset")
            if not disc and len(asm) > len(parts):
                r = asm[-1]
                if r.ret != 0 or r.off != start + len(want) // 2 or r.hex[:len(want)] != want:
                    disc.add("repeat")
            rep.outcomes.add(got if not disc else tuple(sorted(disc)))
        if disc:
            rep.fail({"class": phase, "cfg": "/".join(cfg), "nlines": str(len(prog)), "ncalls": str(len(parts)),
                      "start": str(start), "fill": fill},
                     disc, {"parts": parts, "cfg": list(cfg), "start": start, "fill": fill,
                            "want": want},
                     "program %r split %s at offset %d: %s" % (prog, [len(p) for p in parts], start, sorted(disc)))


def long_programs(rep, S, table, tier):
    """Programs of 7-20 kB built by cycling through the line set, on instances with a library-managed buffer: one call,
    two calls split at several points, and one call per line for a stretch around each growth point."""
    code = [t for t in S if t.strip() and not t.startswith(";") and ":" not in t and not t.startswith("section") and not t.startswith("global")]
    n = 0
    for cfg in CFGS:
        for rot in ((0, 7) if tier == "quick" else (0, 3, 7, 11, 19)):
            for target in ((7000, 13500) if tier == "quick" else (6100, 7000, 12100, 13500, 19000)):
                prog = []
                size = 0
                i = rot
                while size < target:
                    t = code[i % len(code)]
                    prog.append(t)
                    size += len(table[(t, cfg)]) // 2
                    i += 1
                want = "".join(table[(t, cfg)] for t in prog)
                cut = []
                pos = 0
                for k, t in enumerate(prog):
                    if pos < 5990 <= pos + len(table[(t, cfg)]) // 2 or pos < 11990 <= pos + len(table[(t, cfg)]) // 2:
                        cut.append(k)
                    pos += len(table[(t, cfg)]) // 2
                deliveries = [[prog]]
                for k in cut:
                    for d in (-2, 0, 1, 3):
                        if 0 < k + d < len(prog):
                            deliveries.append([prog[:k + d], prog[k + d:]])
                    a, b = max(1, k - 3), min(len(prog) - 1, k + 4)
                    deliveries.append([prog[:a]] + [[x] for x in prog[a:b]] + [prog[b:]])
                hs = []
                for parts in deliveries:
                    ops = ["i", hexec.cfg_ops(cfg)]
                    for p in parts:
                        ops.append("A" + hexec.esc("\n".join(p) + "\n"))
                    ops.append("G")
                    hs.append("\t".join(ops))
                res = hexec.run(hs, dangerous=True, timeout=30)
                from .c17 import fnv
                wb = bytes.fromhex(want)
                wantd = want if len(wb) <= 4096 else "#%d:%016x" % (len(wb), fnv(wb))
                for parts, obs in zip(deliveries, res):
                    rep.evaluations += 1
                    rep.traces += 1
                    rep.transitions += len(parts)
                    n += 1
                    disc = set()
                    if hexec.is_crash(obs):
                        disc.add("crash")
                    else:
                        g = next((o for o in obs if o.startswith("G:")), "G:-1::1").split(":")
                        if any(o.startswith("A:") and o.split(":")[1] != "0" for o in obs):
                            disc.add("rejected")
                        elif g[1] != str(len(wb)):
                            disc.add("offset")
                        elif ":".join(g[2:-1]) != wantd:
                            disc.add("bytes")
                    if disc:
                        rep.fail({"class": "long-internal", "cfg": "/".join(cfg), "ncalls": str(len(parts)), "size": str(len(wb))},
                                 disc, {"long": True, "cfg": list(cfg), "rot": rot, "target": target, "ncalls": len(parts)},
                                 "program of %d bytes (%d lines) on an internal buffer in %d calls: %s" % (len(wb), len(prog), len(parts), sorted(disc)))
    return n


# lines that read or write every piece of per-instruction encoder state we know of (immediates narrower than their field,
# rel8/rel32, ModRM/SIB/displacement, VEX vvvv/W/L, two- and three-operand VEX, size keywords, shift-by-1, accumulator
# forms, option-sensitive shapes): each is tried directly before and directly after EVERY line of the big corpus
SENSITIVE = ["mov ecx, 0x5", "mov rcx, 0x5", "mov rax, 0x7fffffff", "mov rax, 0x000000007fffffff", "mov ax, 0x1", "mov ah, 0x1",
             "jmp 0x1000", "jmp 0x4", "call 0x10", "jrcxz 0x4", "xbegin 0x10", "push 0x100", "push 0x7f", "push -1",
             "add eax, 0x100", "add rax, -1", "add cl, 0x80", "test eax, 0x80000000", "imul rax, rbx, 0x100",
             "mov byte [rbp], 0x12", "mov dword [rax+rcx*2+0x10], 0x1", "mov word [4*rcx+0x10], 0x1234", "cmp qword [eax], 0x1",
             "vmovupd ymm4, [rdi]", "vmovdqu [r9], xmm12", "rorx rax, rbx, 0x3", "vpaddd ymm1, ymm10, [rbp]", "vpxor xmm1, xmm2, xmm3",
             "mulx r11, rdx, [r8+r9*4]", "bextr eax, [1*r12], ecx", "paddb mm1, [r9]", "pxor xmm1, xmm2", "movq [rax-0x80], xmm9",
             "lea r15, [rax+rsp]", "lea r15, [2*rax]", "lea rax, [1*rsp+0x10]", "mov rax, [0x10]", "mov rax, [4*r13-0x1]",
             "xchg rax, rbx", "xchg eax, eax", "shl rax, 1", "shl rax, 0x3", "shl rax, cl", "sar dword [rbx], 1", "rcr cx, 1",
             "shld rax, rbx, 0x5", "movzx eax, cx", "movzx r9, byte [r10]", "jmp [rax+r9*4]", "call rax", "push [rax+rcx*2+0x10]",
             "pop r13w", "setne [rbp+0x10]", "prefetcht0 [rax]", "clflush [r8]", "nop", "nop7", "ret", "cmovne rax, [rsp]",
             "adcx rax, rbx", "inc dword [r12]", "neg al", "not qword [0x1000]"]


def neighbour_sweep(rep, tier):
    """A ; B in one call == code(A) + code(B) for every A of the big corpus and every B of SENSITIVE, in both orders."""
    from . import c16
    big = [t for t, _ in c16.base_lines("quick")]
    cfgs = [hexec.DEFAULT_CFG] if tier == "quick" else CFGS
    keep, table = singles_cfg(sorted(set(big) | set(SENSITIVE)), cfgs)
    sens = [t for t in SENSITIVE if t in keep]
    rep.extra["sensitive_lines_dropped"] = [t for t in SENSITIVE if t not in keep]
    hs = []
    meta = []
    for a in keep:
        for b in sens:
            for cfg in cfgs:
                for x, y in ((a, b), (b, a)):
                    hs.append("c64:p:cc\t%s\tA%s" % (hexec.cfg_ops(cfg), hexec.esc_fast(x + "\n" + y + "\n")))
                    meta.append((x, y, cfg))
    res = hexec.run(hs)
    for (x, y, cfg), obs in zip(meta, res):
        rep.evaluations += 1
        rep.traces += 1
        rep.transitions += 2
        want = table[(x, cfg)] + table[(y, cfg)]
        if hexec.is_crash(obs):
            got = "crash"
        else:
            a = hexec.Asm(obs[-1])
            got = a.hex[:2 * a.off] if a.ret == 0 and a.off >= 0 else "rejected"
        if got != want:
            rep.fail({"class": "neighbour", "cfg": "/".join(cfg), "first": x.split()[0], "second": y.split()[0],
                      "sensitive": "second" if y in sens else "first"},
                     ["crash" if got == "crash" else ("rejected" if got == "rejected" else "bytes")],
                     {"parts": [[x, y]], "cfg": list(cfg), "start": 0, "fill": "cc", "want": want},
                     "%r then %r in one call [%s]: %s, alone: %s + %s" % (x, y, "/".join(cfg), got, table[(x, cfg)], table[(y, cfg)]))
    rep.bounds["neighbour_sweep"] = {"corpus_lines": len(keep), "sensitive_lines": len(sens), "configurations": len(cfgs)}
    return len(keep) * len(sens) * 2


def singles_cfg(lines, cfgs):
    hs = [hexec.single(t, cfg, n=64) for t in lines for cfg in cfgs]
    res = hexec.run(hs)
    table = {}
    keep = []
    k = 0
    for t in lines:
        row = {}
        for cfg in cfgs:
            o = res[k]
            k += 1
            if not hexec.is_crash(o):
                a = hexec.Asm(o[-1])
                if a.ret == 0 and a.off >= 0:
                    row[cfg] = a.hex[:2 * a.off]
        if len(row) == len(cfgs):
            keep.append(t)
            for cfg in cfgs:
                table[(t, cfg)] = row[cfg]
    return keep, table


# ---- line terminators ------------------------------------------------------------------------------------------------
# Every other phase ends lines with LF. Here every line of a three-line program gets its own terminator - LF, CRLF, and a
# bare CR if (and only if) this tree treats a bare CR as a line end between two instructions, which is established by a probe
# first, so that a tree that does not know CR-only line ends is not held to them - and the last line is also tried without
# any. The pool has one line per way a line can end for the parser: code, code with a trailing comment, a comment line, a
# macro line, a label, an empty line (seeded/C06_6: a bare CR that ends every line except a comment).
TERM_POOL = ["nop", "mov rax, 0x10 ; trailing", "vpaddd ymm1, ymm2, ymm3", "; just a comment", "%define foo 1", "label:", "",
             "shl rax, 1 % trailing macro"]


def term_text(lines, terms):
    return "".join(l + t for l, t in zip(lines, terms))


def term_hist(lines, terms, cfg, start, per_line):
    ops = ["c1024:p:cc", hexec.cfg_ops(cfg), "o%d" % start]
    if per_line:
        ops += ["A" + hexec.esc(l + t) for l, t in zip(lines, terms) if l + t]
    else:
        ops.append("A" + hexec.esc(term_text(lines, terms)))
    return "\t".join(ops)


def term_eval(obs, start, want):
    if hexec.is_crash(obs):
        return {"crash"}
    asm = [hexec.Asm(o) for o in obs if o.startswith("A:")]
    if any(a.ret != 0 for a in asm):
        return {"rejected"}
    got, pos = "", start
    for a in asm:
        got += a.hex[:2 * max(0, a.off - pos)]
        pos = a.off
    if pos != start + len(want) // 2:
        return {"offset"}
    return set() if got == want else {"bytes"}


def terminator_phase(rep, tier):
    pool, table = singles(TERM_POOL)
    probe = hexec.run(["c64:p:cc\tA" + hexec.esc("nop\rret")], nproc=1)[0]
    cr = (not hexec.is_crash(probe)) and hexec.Asm(probe[-1]).ret == 0 and hexec.Asm(probe[-1]).hex[:4] == "90c3"
    rep.extra["bare_cr_is_a_line_end_on_this_tree"] = cr
    rep.extra["terminator_pool"] = pool
    T = ["\n", "\r\n"] + (["\r"] if cr else [])
    jobs = []
    for i, lines in enumerate(itertools.product(pool, repeat=3)):
        for terms in itertools.product(T, T, T + [""]):
            cfg = CFGS[i % 3]
            for per_line in (False, True):
                jobs.append((lines, terms, cfg, (0, 7)[i % 2], per_line))
    if tier != "quick":       # four-line programs, one call
        for i, lines in enumerate(itertools.product(pool, repeat=4)):
            for terms in itertools.product(T, T, T, T + [""]):
                jobs.append((lines, terms, CFGS[i % 3], 0, False))
    res = hexec.run([term_hist(*j) for j in jobs])
    for (lines, terms, cfg, start, per_line), obs in zip(jobs, res):
        rep.evaluations += 1
        rep.traces += 1
        rep.transitions += 1
        want = "".join(table[(l, cfg)] for l in lines)
        disc = term_eval(obs, start, want)
        rep.outcomes.add(want if not disc else tuple(sorted(disc)))
        if disc:
            rep.fail({"class": "terminators", "cfg": "/".join(cfg), "terms": repr(terms), "kinds": " | ".join(lines),
                      "per_line": str(per_line)}, disc,
                     {"term": True, "lines": list(lines), "terms": list(terms), "cfg": list(cfg), "start": start,
                      "per_line": per_line, "want": want},
                     "program %r %s at offset %d: %s" % (term_text(lines, terms), "one call per line" if per_line else "one call",
                                                        start, sorted(disc)))
    rep.bounds["terminator_programs"] = len(jobs)
    return len(jobs)


def splits(prog):
    k = len(prog)
    for mask in range(1 << (k - 1)):
        parts = []
        cur = [prog[0]]
        for i in range(1, k):
            if mask >> (i - 1) & 1:
                parts.append(cur)
                cur = []
            cur.append(prog[i])
        parts.append(cur)
        yield parts


def replay(r, verbose=False):
    if r.get("term"):
        obs = hexec.run([term_hist(r["lines"], r["terms"], tuple(r["cfg"]), r["start"], r["per_line"])], nproc=1)[0]
        if verbose:
            print(obs)
        return bool(term_eval(obs, r["start"], r["want"]))
    if r.get("long"):
        rep = Report(PROP, "quick", 0)
        rep.findings = []
        S0 = line_set("quick") + NONCODE
        S, table = singles(S0)
        long_programs(rep, S, table, "thorough")
        return bool(rep.pending)
    parts = [list(p) for p in r["parts"]]
    cfg = tuple(r["cfg"])
    obs = hexec.run([hist(parts, cfg, r["start"], r["fill"])], nproc=1)[0]
    asm = [hexec.Asm(o) for o in obs if o.startswith("A:")]
    got = ""
    pos = r["start"]
    bad = hexec.is_crash(obs)
    for a in asm[:len(parts)]:
        if a.ret != 0:
            bad = True
            break
        got += a.hex[:2 * max(0, a.off - pos)]
        pos = a.off
    if verbose:
        print("parts:", parts, "\nobserved:", got, "\nexpected:", r["want"], "\nobs:", obs)
    if len(asm) > len(parts) and asm[-1].hex[:len(r["want"])] != r["want"]:
        bad = True
    return bad or got != r["want"]


def run(tier, seed):
    rep = Report(PROP, tier, seed)
    rep.rule = ("line set S (one line per parser/encoder path, kept only if it assembles alone); programs = all ordered pairs "
                "of S, all ordered triples of a core, all programs of <= 4/5 lines over a smaller core in ALL 2^(k-1) splits "
                "into successive calls; every line of the big corpus (one per mnemonic/form/operand-class pattern) directly before and directly after each of ~65 state-sensitive lines; start offsets {0,1,7,64}, buffer fills {00,cc,ff}, each program assembled a second "
                "time in one call; all three-line (thorough: four-line) programs over eight kinds of line with every combination of LF / CRLF / bare CR (if this tree knows it) / no final terminator, in one call and one call per line; programs of 7-20 kB on library-managed buffers in one call, in two calls split around each "
                "growth point and one call per line around it; oracle = concatenation of the single-line outputs under the same "
                "options (pure byte relation). distinct_nontrivial = distinct programs (line sequences)")
    S0 = line_set(tier) + NONCODE
    S, table = singles(S0)
    rep.bounds["line_set"] = len(S)
    rep.extra["dropped_lines"] = [t for t in S0 if t not in S][:40]
    rep.sample({"line_set_head": S[:12]})
    progs = set()
    # all ordered pairs of S, one configuration each in turn (all three for quick core)
    jobs = []
    for i, (a, b) in enumerate(itertools.product(S, S)):
        cfg = CFGS[i % 3] if tier == "quick" else None
        for c in ([cfg] if cfg else CFGS):
            jobs.append(([[a, b]], c, (0, 1, 7, 64)[i % 4], ("00", "cc", "ff")[i % 3]))
        progs.add((a, b))
    check(rep, jobs, table, "pairs")
    rep.bounds["pairs"] = len(S) ** 2
    core = S[:: max(1, len(S) // (18 if tier == "quick" else 30))]
    jobs = []
    for i, t in enumerate(itertools.product(core, repeat=3)):
        jobs.append(([list(t)], CFGS[i % 3], (0, 1, 7, 64)[i % 4], ("00", "cc", "ff")[i % 3]))
        progs.add(t)
    if not rep.expired():
        check(rep, jobs, table, "triples")
        rep.bounds["triples_core"] = len(core)
    # all splits
    small = S[:: max(1, len(S) // 12)][:12]
    tiny = small[::2][:6]
    plan = [(small, 2), (small, 3)] + ([(tiny, 4)] if tier == "quick" else [(small, 4), (tiny, 5)])
    for pool, k in plan:
        if rep.expired():
            rep.cut_short("splits of %d-line programs not run" % k)
            continue
        jobs = []
        for i, t in enumerate(itertools.product(pool, repeat=k)):
            progs.add(t)
            for parts in splits(list(t)):
                for start in ((0, 7) if tier == "quick" else (0, 1, 7, 64)):
                    jobs.append((parts, CFGS[i % 3], start, ("00", "cc", "ff")[(i + start) % 3]))
        check(rep, jobs, table, "splits%d" % k)
        rep.bounds["all_splits_of_%d_line_programs" % k] = len(pool) ** k
    # every corpus line directly before and after every sensitive line
    nsweep = 0
    if not rep.expired():
        nsweep = neighbour_sweep(rep, tier)
    else:
        rep.cut_short("neighbour sweep not run")
    # long programs on library-managed buffers: the same relation across buffer growth
    if not rep.expired():
        nlong = long_programs(rep, S, table, tier)
        rep.bounds["long_programs_internal_buffer"] = nlong
    nterm = 0
    if not rep.expired():
        nterm = terminator_phase(rep, tier)
    else:
        rep.cut_short("terminator phase not run")
    rep.states = len(progs) + nsweep + nterm
    rep.distinct_n = len(progs) + nsweep + nterm
    rep.sample({"history": hist([["nop", "ret"], ["mov rax, 0x10"]], CFGS[0], 7, "cc")})
    rep.assumptions = ["instructions are position independent (numeric branch operands are displacements)"]
    return rep.finish(replay)
