"""C07 — no sequence of API calls writes outside the attached buffer (E2 with guard pages)."""
import itertools

from .. import hexec, lengths, models
from ..report import Report

PROP = "C07"


STRESS = ["and qword [ebx+ecx*4+0x12345678], 0x112233445566778", "mov qword [eax+r9d*8+0x12345678], 0x1122334455667788",
          "test qword [r12d+r13d*8+0x12345678], 0x112233445566778", "add qword [r8d+r9d*2-0x12345678], 0x100000000",
          "imul r9, [r12d+r13d*8+0x12345678], 0x112233445566778", "mov word [r12d+r13d*8+0x12345678], 0x1122334455667788",
          "vperm2i128 ymm9, ymm10, [r12d+r13d*8+0x12345678], 0x1", "test r9, 0x8000000000000000", "push 0x8000000000000000"]


def texts(L):
    mx = max(L)
    T = {
        "t1": [1], "t10": [10], "tmax": [mx], "prog3": [3, 5, 7], "nop25": [1] * 25, "bad": [None], "goodbad": [1, None],
    }
    # the longest output the library produces for ANY text it accepts, not only for well-formed instructions: long memory
    # operands with immediates the form cannot represent come out as over-long byte sequences, and the 20-byte reserve has
    # to cover those too
    res = hexec.run([hexec.single(t, n=256) for t in STRESS])
    best = None
    for t, o in zip(STRESS, res):
        if hexec.is_crash(o):
            continue
        a = hexec.Asm(o[-1])
        if a.ret == 0 and a.off > 0 and (best is None or a.off > best[1]):
            best = (t, a.off)
    if best:
        T["tgarb"] = [best[1]]
    src = {}
    if best:
        src["tgarb"] = best[0] + "\n"
    for k, ls in T.items():
        if k == "tgarb":
            continue
        if k == "nop25":
            src[k] = "nop\n" * 25
        else:
            src[k] = "".join((L[l][0] if l is not None else "foo bar, 1") + "\n" for l in ls)
    if "tgarb" not in src:        # the tree refuses every line of the stress pool: the longest well-formed line stands in
        T["tgarb"], src["tgarb"] = T["tmax"], src["tmax"]
    return T, src


def menu(n, tier):
    ops = []
    for k in sorted({0, 1, n - 21, n - 20, n - 19, n - 1, n}):
        if 0 <= k <= n:
            ops.append(("o", k))
    for c in (0, 4, 16):
        ops.append(("k", c))
    for t in ("t1", "t10", "tmax", "tgarb", "prog3", "nop25", "bad", "goodbad"):
        ops.append(("A", t))
    for t in ("t1", "prog3", "goodbad"):
        ops.append(("N", t, 4))
    return ops


def render(op, src):
    if op[0] == "o":
        return "o%d" % op[1]
    if op[0] == "k":
        return "k%d" % op[1]
    if op[0] == "A":
        return "A" + hexec.esc(src[op[1]])
    return "N%d:%s" % (op[2], hexec.esc(src[op[1]]))


def judge(n, seq, obs, T):
    """-> set of discrepancies for one executed history."""
    disc = set()
    if hexec.is_crash(obs):
        return {"crash"}
    m = models.Inst(n)
    it = iter(obs[1:])   # obs[0] is the create
    for op in seq:
        o = next(it, None)
        if o is None:
            disc.add("harness")
            break
        if op[0] == "o":
            m.set_offset(op[1])
            continue
        if op[0] == "k":
            m.set_chunk(op[1])
            continue
        a = hexec.Asm(o)
        valid_start = m.offset >= 0
        start = m.offset
        if op[0] == "A":
            ret, off, end, _ = m.assemble(T[op[1]])
            cnt = None
        else:
            ret, off, end, _, cnt = m.count(T[op[1]], op[2])
        if a.canary == 0:
            disc.add("canary")
        if a.lo is not None and a.lo >= 0 and valid_start and a.lo < start:
            disc.add("below-start")
        if a.hi is not None and a.hi > n:
            disc.add("beyond-buffer")
        if not valid_start:
            # after a failed call the offset is -1: nothing may be written at all
            if a.lo != -1:
                disc.add("write-after-failure")
            if a.ret == 0:
                disc.add("ret")
            m.offset = a.off if a.ret == 0 else -1
            continue
        if a.ret != ret:
            disc.add("ret")
            m.offset = a.off if a.ret == 0 else -1
            continue
        if a.off != off:
            disc.add("offset")
            m.offset = a.off
        if end is not None and a.hi > end:
            disc.add("write-past-end")     # bytes written at or beyond the position the model says was not reached
        if cnt is not None and a.dest != cnt:
            disc.add("count")
    return disc


def run_batch(rep, n, layout, seqs, T, src, phase):
    hs = ["c%d:%s:cc\t" % (n, layout) + "\t".join(render(op, src) for op in q) for q in seqs]
    res = hexec.run(hs, dangerous=True)
    for q, obs in zip(seqs, res):
        rep.evaluations += 1
        rep.traces += 1
        rep.transitions += len(q)
        disc = judge(n, q, obs, T)
        rep.outcomes.add(tuple(o.split(":")[1:3] for o in obs if o[:2] in ("A:", "N:")).__repr__() if not disc else str(sorted(disc)))
        if disc:
            rep.fail({"class": phase, "n": str(n), "layout": layout, "ops": " ".join(x[0] for x in q),
                      "nsmall": "1" if n < 20 else "0"},
                     disc, {"n": n, "layout": layout, "seq": [list(x) for x in q]},
                     "n=%d layout=%s history %s: %s; obs %s" % (n, layout, q, sorted(disc), obs))


def replay(r, verbose=False):
    L = lengths.by_length()
    T, src = texts(L)
    q = [tuple(x) for x in r["seq"]]
    h = "c%d:%s:cc\t" % (r["n"], r["layout"]) + "\t".join(render(op, src) for op in q)
    obs = hexec.run([h], dangerous=True, nproc=1)[0]
    disc = judge(r["n"], q, obs, T)
    if verbose:
        print(h, "\n", obs, "\n", sorted(disc))
    return bool(disc)


def run(tier, seed):
    rep = Report(PROP, tier, seed)
    L = lengths.by_length()
    T, src = texts(L)
    rep.rule = ("caller buffers of every length n in 0..48 (+63,64,100,4095,4096,4097 in thorough) in two guard-page layouts "
                "(end flush against PROT_NONE, start flush after one), all histories up to the depth bound over the menu "
                "{asm_set_offset(k) for k in {0,1,n-21,n-20,n-19,n-1,n}, asm_set_chunk_size(0|4|16), asm_assemble_str and "
                "counting calls on 1-byte / 10-byte / longest / 3-line / 25-line / rejected / good+rejected texts}; every "
                "history runs in its own forked child; oracle: no fault, canaries intact, nothing below the call's start "
                "offset or beyond the model's end position changed, return values and offsets equal the documented 20-byte "
                "reserve model. distinct_nontrivial = histories containing at least one assemble call")
    ns = list(range(0, 33)) if tier == "quick" else list(range(0, 49)) + [63, 64, 100, 4095, 4096, 4097]
    deep = [] if tier == "quick" else [0, 19, 20, 21, 22, 30, 40, 41, 48]
    nstates = 0
    for n in ns:
        if rep.expired():
            rep.cut_short("buffer lengths from %d on not run" % n)
            break
        ops = menu(n, tier)
        for layout in ("e", "s"):
            seqs = []
            for d in (1, 2, 3):
                seqs += list(itertools.product(ops, repeat=d))
            run_batch(rep, n, layout, seqs, T, src, "depth<=3")
            nstates += len(seqs)
            rep.distinct_n += sum(1 for q in seqs if any(x[0] in "AN" for x in q))
        rep.bounds["max_n_depth3"] = n
    for n in deep:
        if rep.expired():
            rep.cut_short("depth 4 for n=%d not run" % n)
            break
        ops = menu(n, tier)
        # depth 4: histories whose last op is an assemble/counting call (the others add no observation)
        last = [o for o in ops if o[0] in "AN"]
        for layout in ("e", "s"):
            seqs = [a + (b,) for a in itertools.product(ops, repeat=3) for b in last]
            run_batch(rep, n, layout, seqs, T, src, "depth4")
            nstates += len(seqs)
            rep.distinct_n += len(seqs)
        rep.bounds.setdefault("depth4_n", []).append(n)
    rep.states = nstates
    rep.sample({"history": "c21:e:cc\t" + "\t".join(render(op, src) for op in (("o", 1), ("A", "t10"), ("A", "t1")))})
    rep.sample({"history": "c40:s:cc\t" + "\t".join(render(op, src) for op in (("k", 16), ("A", "goodbad"), ("A", "nop25")))})
    rep.assumptions = ["asm_set_offset is only called with 0 <= k <= n (precondition of the statement)",
                       "guard pages + canaries make any write outside the buffer observable"]
    return rep.finish(replay)
