"""C08 — the library-managed buffer grows transparently for programs of any length (E2 + forced-move seam)."""
from .. import hexec
from ..report import Report

PROP = "C08"
V = 0x1122334455667788
MOV = "mov rax, 0x%x" % V          # 10 bytes
NOPS = {1: "nop", 2: "nop2", 3: "nop3", 4: "nop4", 5: "nop5", 6: "nop6", 7: "nop7", 8: "nop8", 9: "nop9"}
def _const(name, default):
    """Build constants of the tree under test (the property does not fix them): read from src/common.h, so that a tree
    with another growth quantum is explored around ITS thresholds."""
    import re
    from .. import build
    try:
        m = re.search(r"#define\s+%s\s+(\d+)" % name, open(build.REPO + "/src/common.h").read())
        return int(m.group(1)) if m else default
    except OSError:
        return default


QUANTUM = _const("MEM_BUFFER", 6000)
RESERVE = _const("BUFFER_TOLERANCE", 20)


def program(total):
    """Lines (with their lengths) of a program of exactly `total` bytes: mov rax, V ... filler ... ret."""
    body = total - 1
    k = body // 10
    r = body - 10 * k
    lines = [(MOV, 10)] * k
    if r:
        lines.append((NOPS[r], r))
    lines.append(("ret", 1))
    return lines


def model_mremaps(lengths_positions):
    cap = QUANTUM + RESERVE
    n = 0
    for p in lengths_positions:
        if p + RESERVE > cap:
            cap += QUANTUM
            n += 1
    return n


def totals(tier):
    out = set()
    qs = (1, 2) if tier == "quick" else (1, 2, 3)
    for q in qs:
        out.update(range(q * QUANTUM - 40, q * QUANTUM + 41))
    step = 970 if tier == "quick" else 97
    out.update(range(step, 19000, step))
    out.update([11, 21, 100])
    return sorted(t for t in out if t >= 11)


def deliveries(lines, tier):
    """Ways of feeding the program: one call; two calls split near each growth threshold; one call per line near it."""
    n = len(lines)
    yield ("one-call", [lines])
    pos = 0
    starts = []
    for _, l in lines:
        starts.append(pos)
        pos += l
    for q in (1, 2, 3):
        thr = q * QUANTUM
        idx = next((i for i, p in enumerate(starts) if p + RESERVE > thr), None)
        if idx is None:
            continue
        offs = (-1, 0, 2) if tier == "quick" else (-3, -2, -1, 0, 1, 2, 3)
        for d in offs:
            j = idx + d
            if 0 < j < n:
                yield ("split@%d%+d" % (q, d), [lines[:j], lines[j:]])
        if tier == "thorough" or q == 1:
            a, b = max(1, idx - 3), min(n - 1, idx + 3)
            parts = [lines[:a]] + [[ln] for ln in lines[a:b]] + [lines[b:]]
            yield ("per-line@%d" % q, [p for p in parts if p])


MODES = [("plain", None, None), ("fit8", 8, None), ("fit16", 16, None), ("count16", None, 16), ("count0", None, 0),
         ("count-1", None, -1)]      # counting with c < 2 is documented as plain assembly: the third assemble mode's degenerate case
# chunk sizes that do not divide the growth quantum: padding can then straddle a growth threshold, and every phase of the
# instruction grid relative to the threshold is reached by prefixing 0..c-1 one-byte instructions
PHASE_CHUNKS = (7, 14, 16, 24)


def phase_program(q):
    """q one-byte nops (never padded, so the next instruction is attempted exactly at position q), three 10-byte movs, ret."""
    return [("nop", 1)] * q + [(MOV, 10)] * 3 + [("ret", 1)]


def rle(p):
    """Escaped text of a part with runs of the same line written in hexec's repetition form."""
    out = []
    i = 0
    while i < len(p):
        j = i
        while j < len(p) and p[j][0] == p[i][0]:
            j += 1
        line = hexec.esc(p[i][0] + "\n")
        out.append("\\{%d:%s\\}" % (j - i, line) if j - i > 3 else line * (j - i))
        i = j
    return "".join(out)


def hist(create, parts, fit, cnt, plan):
    ops = ["Z" + plan, create]
    if fit:
        ops.append("k%d" % fit)
    for p in parts:
        text = rle(p)
        ops.append(("N%d:%s" % (cnt, text)) if cnt is not None else ("A" + text))
        ops.append("G")
    ops.append("x")
    return "\t".join(ops)


def judge(total, parts, fit, cnt, obs, ref):
    disc = set()
    if hexec.is_crash(obs):
        return {"crash"}
    ai = [o for o in obs if o[:2] in ("A:", "N:")]
    gi = [o for o in obs if o.startswith("G:")]
    ar = [o for o in ref if o[:2] in ("A:", "N:")]
    gr = [o for o in ref if o.startswith("G:")]
    for a, r in zip(ai, ar):
        fa, fr = a.split(":"), r.split(":")
        if fa[1] != "0":
            disc.add("call-failed")
        if fa[1:3] != fr[1:3]:
            disc.add("return-or-offset-differs")
        if cnt is not None and fa[-1] != fr[-1]:
            disc.add("count-differs")
    for g, r in zip(gi, gr):
        if g.split(":")[1:-1] != r.split(":")[1:-1]:
            disc.add("code-differs-from-big-buffer-run")
    x = next((o for o in obs if o.startswith("x:")), "x:?")
    xf = x.split(":")
    if xf[1] != "0":
        disc.add("code-not-executable")
    elif int(xf[2], 16) != V:
        disc.add("wrong-result-when-called")
    # growth happens exactly when the next instruction's position exceeds capacity - 20 (observed through mremap calls)
    t = next((o[2:] for o in obs if o.startswith("T:")), "")
    nm = t.count("mremap")
    if not fit:
        pos = 0
        starts = []
        for p in parts:
            for _, l in p:
                starts.append(pos)
                pos += l
        if nm != model_mremaps(starts):
            disc.add("info:growth-count")   # informational only: WHEN the buffer grows is not part of the statement
    return disc


def run(tier, seed):
    rep = Report(PROP, tier, seed)
    rep.rule = ("programs `mov rax, V; ...; ret` whose total length takes EVERY value within +-40 bytes of 1x, 2x(, 3x) the growth "
                "quantum (6000) and multiples of 97/970 below 19000; delivered in one call, in two calls split at every line "
                "near each growth threshold, and one call per line near it; modes plain / fitting c=8,16 / counting c=16, 0, -1; plus chunk "
                "fitting with chunk sizes 7, 14, 16, 24 and a 10-byte instruction attempted at EVERY position from c+2 bytes before "
                "to 2 bytes after the growth point (reached with a run of one-byte instructions), so that a padding straddles it; each run "
                "twice: natural mremap and mremap FORCED TO MOVE the mapping (wrap seam; the old range disappears); oracle: every "
                "call succeeds, after every call code[0,offset) equals the same calls on a 64 KiB caller buffer, and the code is "
                "called and returns V (growth points are read from the tree's own MEM_BUFFER / BUFFER_TOLERANCE; their count is "
                "reported, not judged). distinct_nontrivial = "
                "distinct (length, delivery, mode, move) runs in which the buffer grew at least once")
    jobs = []
    for total in totals(tier):
        lines = program(total)
        for dname, parts in deliveries(lines, tier):
            for mname, fit, cnt in MODES:
                if tier == "quick" and mname == "fit8" and dname != "one-call":
                    continue
                for plan in ("", "M"):
                    jobs.append((total, dname, parts, mname, fit, cnt, plan))
    for c in PHASE_CHUNKS:
        for thr in ((1,) if tier == "quick" else (1, 2)):
            cap = thr * QUANTUM + RESERVE
            for q in range(cap - RESERVE - c - 2, cap - RESERVE + 3):
                lines = phase_program(q)
                for plan in ("", "M"):
                    jobs.append((q, "phase%d@%d" % (c, q), [lines], "fit%d" % c, c, None, plan))
    B = 4000
    for k in range(0, len(jobs), B):
        if rep.expired():
            rep.cut_short("cut at job %d of %d" % (k, len(jobs)))
            break
        chunk = jobs[k:k + B]
        hs = []
        for total, dname, parts, mname, fit, cnt, plan in chunk:
            hs.append(hist("i", parts, fit, cnt, plan))
            hs.append(hist("c65536:p:cc", parts, fit, cnt, ""))
        res = hexec.run(hs, variant="wrap", dangerous=True, timeout=30)
        for i, (total, dname, parts, mname, fit, cnt, plan) in enumerate(chunk):
            obs, ref = res[2 * i], res[2 * i + 1]
            rep.evaluations += 1
            rep.traces += 1
            rep.transitions += len(parts) + 1
            disc = judge(total, parts, fit, cnt, obs, ref)
            if "info:growth-count" in disc:
                disc.discard("info:growth-count")
                rep.extra["growth_points_differ_from_capacity_model"] = rep.extra.get("growth_points_differ_from_capacity_model", 0) + 1
            t = next((o[2:] for o in obs if o.startswith("T:")), "") if not hexec.is_crash(obs) else ""
            grew = t.count("mremap")
            rep.outcomes.add((grew, plan, mname))
            if grew:
                rep.distinct_n += 1
            if disc:
                rep.fail({"class": mname, "delivery": dname.split("@")[0], "move": plan or "natural", "total": str(total),
                          "grew": str(grew)},
                         disc, {"total": total, "delivery": dname, "mode": mname, "plan": plan},
                         "program of %d bytes, %s, %s, %s mremap: %s; obs %s" %
                         (total, dname, mname, "forced-move" if plan else "natural", sorted(disc), [o[:48] for o in obs][-6:]))
    rep.states = len(jobs)
    rep.bounds["program_lengths"] = len(totals(tier))
    rep.bounds["runs"] = len(jobs)
    rep.sample({"total": 6000, "lines": len(program(6000)), "history_head": hist("i", [program(6000)[:2]], None, None, "M")[:120]})
    rep.extra["growth_quantum"] = QUANTUM
    rep.assumptions = ["forcing mremap to move is legal because the library passes MREMAP_MAYMOVE",
                       "the growth quantum and reserve are read from the tree's src/common.h to place the programs around its thresholds"]
    return rep.finish(replay)


def replay(r, verbose=False):
    if r["delivery"].startswith("phase"):
        c, q = [int(x) for x in r["delivery"][5:].split("@")]
        parts = [phase_program(q)]
        mname, fit, cnt = "fit%d" % c, c, None
    else:
        lines = program(r["total"])
        parts = dict(deliveries(lines, "thorough"))[r["delivery"]]
        mname, fit, cnt = next(m for m in MODES if m[0] == r["mode"])
    res = hexec.run([hist("i", parts, fit, cnt, r["plan"]), hist("c65536:p:cc", parts, fit, cnt, "")], variant="wrap",
                    dangerous=True, nproc=1, timeout=30)
    disc = judge(r["total"], parts, fit, cnt, res[0], res[1])
    disc.discard("info:growth-count")
    if verbose:
        print([o[:60] for o in res[0]], "\n", [o[:60] for o in res[1]], "\n", sorted(disc))
    return bool(disc)
