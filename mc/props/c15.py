"""C15 — an instance's earlier history does not influence later results (E2, differential oracle)."""
import itertools

from .. import hexec, models
from ..report import Report

PROP = "C15"
GOOD = "mov rax, 0x10\nadd rax, rbx\n"
OPS = {
    "new-ext": "c64:p:cc\t@0", "new-int": "i\t@0", "del-2nd": "@1\td\t@0",
    "all-STRICT": "a0", "mov-NASM": "m1", "sib-STRICT": "s0",
    "chunk0": "k0", "chunk4": "k4", "off0": "o0", "off5": "o5",
    "asm-good": "A" + hexec.esc(GOOD), "asm-bad1": "A" + hexec.esc("foo bar\nnop\n"), "asm-bad2": "A" + hexec.esc("nop\nfoo bar\n"),
    "cnt4": "N4:" + hexec.esc(GOOD), "cnt0": "N0:" + hexec.esc(GOOD),
    "asm-other": "@1\tA" + hexec.esc(GOOD) + "\t@0",
}


def file_ops():
    """File entry points as history operations: a readable program and a path that does not exist, through the plain and
    the counting call.  The files live in a fixed scratch directory so that a replay finds the same operations."""
    import os
    d = os.path.join(hexec.TMPROOT, "c15files")
    os.makedirs(d, exist_ok=True)
    good = os.path.join(d, "good.asm")
    with open(good, "w") as f:
        f.write(GOOD)
    missing = os.path.join(d, "no-such-file.asm")
    OPS.update({"file-good": "f" + hexec.esc(good), "file-missing": "f" + hexec.esc(missing),
                "fcnt4-missing": "n4:" + hexec.esc(missing), "fcnt0-missing": "n0:" + hexec.esc(missing)})


SETTER = {"all-STRICT": ("a", 0), "mov-NASM": ("m", 1), "sib-STRICT": ("s", 0)}
PROBES = {
    "mov": "A" + hexec.esc("mov rax, 0x7fffffff\n"),
    "three": "A" + hexec.esc("mov rax, rcx\nmov eax, 0x12345678\nadd rcx, 0x12345678\n"),
    # lengths 3,2,1,2,3: under a chunk size of 4 the second and the fourth instruction must be padded - and only then
    "chunky": "A" + hexec.esc("mov rax, rcx\nmov eax, ecx\nret\nmov eax, ecx\nmov rax, rcx\n"),
    "sib": "A" + hexec.esc("lea r15, [rax+rsp]\nlea r15, [2*rax]\n"),
    "fail": "A" + hexec.esc("nop\nfoo bar\n"),
    "hex16": "A" + hexec.esc("mov rax, 0x000000007fffffff\nret\n"),
    "count": "N4:" + hexec.esc("mov rax, rcx\nmov eax, 0x12345678\nadd rcx, 0x12345678\n"),
}


def settings_after(seq):
    st = models.INIT
    chunk = 0
    for name in seq:
        if name in SETTER:
            st = models.opt_step(st, *SETTER[name])
        elif name == "chunk0":
            chunk = 0
        elif name == "chunk4":
            chunk = 4
    return st, chunk


def hist(seq, k, probe):
    return "c256:p:cc\t" + "\t".join(OPS[x] for x in seq) + ("\t" if seq else "") + "o%d\t%s" % (k, PROBES[probe])


def ref_hist(st, chunk, k, probe):
    return "c256:p:cc\tm%d\tw%d\tb%d\tk%d\to%d\t%s" % (st[0], st[1], st[2], chunk, k, PROBES[probe])


def probe_obs(obs):
    """(ret, off, bytes[, dest]) of the last assemble observation."""
    for o in reversed(obs):
        if o[:2] in ("A:", "N:"):
            a = hexec.Asm(o)
            return (a.ret, a.off, a.hex if a.ret == 0 else "", a.dest)
    return None


def step_checks(hline, obs):
    """A failed (or any) call leaves the bytes before its starting offset intact.  hline is the history line: its
    operations are aligned with the observations."""
    disc = set()
    if hexec.is_crash(obs):
        return {"crash"}
    if hexec.san_of(obs):
        disc.add("sanitizer")
    off = 0
    cur = 0
    for op, o in zip(hline.split("\t"), obs):
        if op[0] == "@":
            cur = int(o[2:]) if o[2:].lstrip("-").isdigit() else -1
            continue
        if cur != 0:
            continue
        if op[0] == "o":
            off = int(op[1:])
        elif op[0] in "ANfn" and not o.endswith(":E"):
            a = hexec.Asm(o)
            if a.lo is not None and a.lo >= 0 and off >= 0 and a.lo < off:
                disc.add("below-start")
            if a.canary == 0:
                disc.add("canary")
            off = a.off
    return disc


def run_level(rep, seqs, probes, phase):
    jobs = [(q, k, p) for q in seqs for k in (0, 5) for p in probes]
    hs = [hist(q, k, p) for q, k, p in jobs]
    refs = {}
    for q, k, p in jobs:
        st, chunk = settings_after(q)
        refs[(st, chunk, k, p)] = None
    rkeys = sorted(refs)
    rres = hexec.run([ref_hist(*rk) for rk in rkeys], variant="asan", dangerous=True)
    for rk, o in zip(rkeys, rres):
        refs[rk] = probe_obs(o) if not hexec.is_crash(o) else "crash"
    res = hexec.run(hs, variant="asan", dangerous=True)
    for (q, k, p), obs, hl in zip(jobs, res, hs):
        rep.evaluations += 1
        rep.traces += 1
        rep.transitions += len(q) + 2
        disc = step_checks(hl, obs)
        st, chunk = settings_after(q)
        want = refs[(st, chunk, k, p)]
        got = None
        if "crash" not in disc:
            got = probe_obs(obs)
            if got != want:
                disc.add("probe-differs")
        rep.outcomes.add(str(got))
        if disc:
            rep.fail({"class": phase, "probe": p, "offset": str(k), "history": " ".join(q),
                      "has_failed_call": "1" if any(x.startswith("asm-bad") for x in q) else "0",
                      "has_counting": "1" if any(x.startswith("cnt") for x in q) else "0"},
                     disc, {"seq": list(q), "k": k, "probe": p},
                     "history %s then offset %d probe %s: got %s, fresh instance with the same settings gives %s; %s %s" %
                     (list(q), k, p, got, want, sorted(disc), hexec.san_of(obs) or ""))


def replay(r, verbose=False):
    file_ops()
    q = tuple(r["seq"])
    st, chunk = settings_after(q)
    o1 = hexec.run([hist(q, r["k"], r["probe"])], variant="asan", dangerous=True, nproc=1)[0]
    o2 = hexec.run([ref_hist(st, chunk, r["k"], r["probe"])], variant="asan", dangerous=True, nproc=1)[0]
    if verbose:
        print(hist(q, r["k"], r["probe"]), "\n", o1, "\nreference:", o2)
    if hexec.is_crash(o1) or step_checks(hist(q, r["k"], r["probe"]), o1):
        return True
    return probe_obs(o1) != probe_obs(o2)


def run(tier, seed):
    rep = Report(PROP, tier, seed)
    rep.rule = ("all histories up to the depth bound over 20 operations (create/destroy a second instance with caller or "
                "internal buffer, 3 option setters, chunk size 0|4, offset 0|5, successful / failing (first or second line) "
                "assemble, counting with c=4|0, assemble on the other instance, file assembly of a readable and of a missing file, file counting of a missing file with c=4|0), each followed by asm_set_offset(k in {0,5}) and "
                "one of 6 probes (option-, chunk- and failure-sensitive texts, a counting probe); oracle: the probe's (return, "
                "offset, bytes, count) equal those of the same probe on a fresh instance configured with only the user-visible "
                "settings of the history; a failed call never changes bytes below its start offset; ASan build, one forked "
                "child per history. distinct_nontrivial = distinct histories")
    file_ops()
    names = list(OPS)
    probes = list(PROBES)
    maxd = 3 if tier == "quick" else 4
    seen = 0
    for d in range(0, maxd + 1):
        if rep.expired():
            rep.cut_short("depth %d not run" % d)
            break
        seqs = list(itertools.product(names, repeat=d))
        if d == 4:
            # depth 4: restrict the first operation to those that change hidden or visible state
            seqs = [q for q in seqs if q[0] in ("asm-bad2", "cnt4", "chunk4", "all-STRICT", "new-int", "asm-good", "fcnt4-missing")]
        run_level(rep, seqs, probes, "depth%d" % d)
        seen += len(seqs)
        rep.bounds["history_depth"] = d
    rep.states = seen
    rep.distinct_n = seen
    rep.sample({"history": hist(("cnt4", "asm-bad2", "chunk4"), 5, "three")})
    rep.sample({"reference": ref_hist((2, 1, 1), 4, 5, "three")})
    rep.assumptions = ["user-visible settings = last value per option dimension and the last asm_set_chunk_size"]
    return rep.finish(replay)
