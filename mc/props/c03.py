"""C03 — immediate operands keep their value at the operand's width (E1 + execution)."""
import random

from .. import e1, hexec, isa
from ..decode import decode_many
from ..report import Report

PROP = "C03"
U64 = 1 << 64


def values(tier, seed):
    V = [0, 1, 2, 0x7e, 0x7f, 0x80, 0x81, 0xe0, 0xe1, 0xfe, 0xff, 0x100, 0x7fff, 0x8000, 0xffff, 0x10000,
         0x0fffffff, 0x10000000, 0x7fffffff, 0x80000000, 0xffffff80, 0xffffffff, 0x100000000,
         (1 << 63) - 1, 1 << 63, U64 - 1, U64 - 0x80, U64 - 0x81, U64 - 0x80000000, U64 - 0x80000001,
         0x1122334455667788, 0x8000000000000001]
    neg = [-v for v in (1, 2, 0x7f, 0x80, 0x81, 0xff, 0x100, 0x7fff, 0x8000, 0x8001, 0xffff, 0x10000, 0x7fffffff,
                        0x80000000, 0x80000001, 0xffffffff, 0x100000000, (1 << 63) - 1, 1 << 63)]
    V += neg
    if tier == "thorough":
        V += [3, 0x10, 0x40, 0xc0, 0x180, 0x1234, 0xfffe, 0x12345678, 0x7ffffffe, 0x80000001, 0xfffffffe,
              0x1ffffffff, 0xffffffff00000000, 0x00000001ffffffff, -3, -0x10, -0x1234, -0x12345678]
    rnd = random.Random(seed)
    if seed:
        V += [rnd.getrandbits(64) for _ in range(6)] + [rnd.getrandbits(31) for _ in range(2)] + \
             [-rnd.getrandbits(31) for _ in range(2)]
    out = []
    for v in V:
        if v not in out:
            out.append(v)
    return out


def representable(v, w, kind="alu"):
    """kind alu: w-bit destination, immediate is imm8/imm16/imm32 sign-extended (64-bit: sign-extended imm32).
    kind mov64: full 64 bits.  kind imm8: one unsigned/signed byte."""
    if kind == "imm8":
        return -128 <= v <= 255
    if kind == "mov64":
        return -(1 << 63) <= v < U64
    if w < 64:
        return -(1 << (w - 1)) <= v < (1 << w)
    return -(1 << 31) <= v < (1 << 31) or U64 - (1 << 31) <= v < U64


def spellings(v, tier):
    if v < 0:
        return ["negdec", "neghex"]
    return ["hex", "dec"]


def vattrs(v, sp):
    if v < 0:
        sfit = next(w for w in (8, 16, 32, 64) if v >= -(1 << (w - 1)))
        return {"sfit": str(sfit), "ufit": "neg", "spelling": sp}
    sfit = next((w for w in (8, 16, 32, 64) if v < (1 << (w - 1))), 65)
    ufit = next(w for w in (8, 16, 32, 64) if v < (1 << w))
    return {"sfit": str(sfit), "ufit": str(ufit), "spelling": sp}


def R(n):
    return ("r", n)


MEMS = [("rcx", None, None, None, ""), ("rax", None, None, None, ""), ("rsp", "rcx", 2, 0x10, ""),
        ("r9", None, None, -0x80, ""), (None, "rcx", 4, 0x10, ""), (None, None, None, 0x1000, ""), ("eax", "r9d", 8, None, "")]
MEMCLS = {0: "plain", 1: "accbase", 2: "sib", 3: "extbase", 4: "nobase", 5: "disponly", 6: "addr32"}


def dests(w, with_mem=True, with_high=True):
    """(operand, attrs) destination kinds of width w."""
    G = isa.GP[w]
    out = [(R(G[0]), {"dk": "acc"}), (R(G[1]), {"dk": "low"}), (R(G[3]), {"dk": "low"}), (R(G[9]), {"dk": "ext"}),
           (R(G[15]), {"dk": "ext"})]
    if w == 8:
        out.append((R("sil"), {"dk": "low8rex"}))
        if with_high:
            out.append((R("ch"), {"dk": "high"}))
    if with_mem:
        for k, sh in enumerate(MEMS):
            b, i, sc, d, st = sh
            out.append((("m", isa.KW[w], w, b, i, sc, d, st), {"dk": "mem-" + MEMCLS[k]}))
    return out


def cases_alu(tier, seed):
    V = values(tier, seed)
    for mn in isa.ALU2 + ["test", "mov"]:
        for w in (8, 16, 32, 64):
            for dst, da in dests(w):
                for v in V:
                    kind = "mov64" if (mn == "mov" and w == 64 and dst[0] == "r") else "alu"
                    if not representable(v, w, kind):
                        continue
                    for sp in spellings(v, tier):
                        a = {"form": "r,i" if dst[0] == "r" else "m,i", "width": str(w), "class": "imm"}
                        a.update(da)
                        a.update(vattrs(v, sp))
                        flags = ("narrow",) if kind == "mov64" else ()
                        yield e1.mk(mn, (dst, ("i", v, sp)), a, flags=flags, immw=w)


def cases_shift(tier, seed):
    V8 = [0, 1, 2, 7, 0x1f, 0x3f, 0x7f, 0x80, 0xff]
    for mn in isa.SHIFTS + ["rcr", "ror"]:
        for w in (8, 16, 32, 64):
            for dst, da in dests(w, with_mem=(mn != "ror")):
                for v in V8:
                    for sp in ("hex", "dec"):
                        a = {"form": "r,i8" if dst[0] == "r" else "m,i8", "width": str(w), "class": "imm",
                             "one": "1" if v == 1 else "0"}
                        a.update(da)
                        a.update(vattrs(v, sp))
                        yield e1.mk(mn, (dst, ("i", v, sp)), a, immw=8)
    for mn in ("shld", "shrd"):
        for w in (16, 32, 64):
            G = isa.GP[w]
            for dst, da in dests(w):
                for src in (G[2], G[10]):
                    for v in V8:
                        a = {"form": "r,r,i8" if dst[0] == "r" else "m,r,i8", "width": str(w), "class": "imm"}
                        a.update(da)
                        a.update(vattrs(v, "hex"))
                        yield e1.mk(mn, (dst, R(src), ("i", v, "hex")), a, immw=8)
    for v in V8:
        for sp in ("hex", "dec"):
            a = {"form": "i8", "width": "8", "class": "imm"}
            a.update(vattrs(v, sp))
            yield e1.mk("xabort", (("i", v, sp),), a, immw=8)


def cases_imul_push(tier, seed):
    V = values(tier, seed)
    for w in (16, 32, 64):
        G = isa.GP[w]
        for d in (G[0], G[3], G[9]):
            srcs = [(R(G[1]), {"dk": "r"}), (R(G[12]), {"dk": "r-ext"})]
            for k, sh in enumerate(MEMS[:3]):
                b, i, sc, dd, st = sh
                srcs.append((("m", None, w, b, i, sc, dd, st), {"dk": "mem-" + MEMCLS[k]}))
            for src, sa in srcs:
                for v in V:
                    if not representable(v, w):
                        continue
                    for sp in spellings(v, tier):
                        a = {"form": "r,r,i" if src[0] == "r" else "r,m,i", "width": str(w), "class": "imm"}
                        a.update(sa)
                        a.update(vattrs(v, sp))
                        yield e1.mk("imul", (R(d), src, ("i", v, sp)), a, immw=w)
    for v in V:
        if not representable(v, 64):
            continue
        for sp in spellings(v, tier):
            a = {"form": "i", "width": "64", "class": "imm"}
            a.update(vattrs(v, sp))
            yield e1.mk("push", (("i", v, sp),), a, immw=64)


MOVMODES = [("STRICT", "NASM", "NASM"), ("NASM", "NASM", "NASM"), ("SMART", "NASM", "NASM")]
CALLER_SAVED = ["rax", "rcx", "rdx", "rsi", "rdi", "r8", "r9", "r10", "r11"]


def exec_cases(tier, seed):
    """(program text, expected rax) for `mov r, v` (+ `mov rax, r`) + `ret`."""
    out = []
    for v in values(tier, seed):
        if not representable(v, 64, "mov64"):
            continue
        sps = spellings(v, tier) + (["hex16"] if v >= 0 else [])
        for sp in sps:
            regs = CALLER_SAVED if tier == "thorough" else ["rax", "rcx", "r9"]
            for r in regs:
                t = "mov %s, %s\n" % (r, isa.imm_text(v, sp))
                if r != "rax":
                    t += "mov rax, %s\n" % r
                t += "ret\n"
                out.append((t, v % U64, r, sp))
    return out


def run_exec(rep, tier, seed):
    ec = exec_cases(tier, seed)
    lines = []
    meta = []
    for t, want, r, sp in ec:
        for cfg in MOVMODES:
            lines.append("c64:p:cc\t%s\tA%s" % (hexec.cfg_ops(cfg), hexec.esc_fast(t)))
            meta.append((t, want, r, sp, cfg))
    res = hexec.run(lines)
    # phase 1: the code must be a well-formed mov [mov] ret before it is executed
    blobs = {}
    for obs in res:
        if not hexec.is_crash(obs):
            a = hexec.Asm(obs[-1])
            if a.ret == 0 and a.off > 0:
                blobs[a.hex[:2 * a.off]] = None
    keys = sorted(blobs)
    decs = dict(zip(keys, decode_many([bytes.fromhex(k) for k in keys])))
    runnable = []
    for (t, want, r, sp, cfg), obs in zip(meta, res):
        rep.evaluations += 1
        attrs = {"class": "exec", "mnemonic": "mov", "form": "r,i;ret", "width": "64", "dk": "acc" if r == "rax" else "other",
                 "cfg": e1.cfg_name(cfg)}
        attrs.update(vattrs(want if want < (1 << 63) else want - U64, sp))
        rp = {"kind": "exec", "text": t, "cfg": list(cfg), "want": want}
        if hexec.is_crash(obs):
            rep.fail(attrs, ["crash"], rp, "%r crashed" % t)
            continue
        a = hexec.Asm(obs[-1])
        if a.ret != 0:
            rep.fail(attrs, ["rejected"], rp, "%r [%s] rejected" % (t, e1.cfg_name(cfg)))
            continue
        hx = a.hex[:2 * a.off]
        d = decs[hx]
        ok = d.op in ("mov", "movabs") and d.consumed < d.nbytes and hx.endswith("c3")
        if ok and r != "rax":
            ok = hx.endswith({"rcx": "4889c8c3", "rdx": "4889d0c3", "rsi": "4889f0c3", "rdi": "4889f8c3", "r8": "4c89c0c3",
                              "r9": "4c89c8c3", "r10": "4c89d0c3", "r11": "4c89d8c3"}[r])
        if not ok:
            rep.fail(attrs, ["malformed"], rp, "%r [%s] -> %s is not mov..ret; not executed" % (t, e1.cfg_name(cfg), hx))
            continue
        runnable.append((t, want, cfg, attrs, rp))
    res2 = hexec.run(["c64:p:cc\t%s\tA%s\tx" % (hexec.cfg_ops(cfg), hexec.esc_fast(t)) for t, _, cfg, _, _ in runnable],
                     dangerous=True)
    for (t, want, cfg, attrs, rp), obs in zip(runnable, res2):
        rep.traces += 1
        x = obs[-1].split(":") if obs else ["?"]
        rep.outcomes.add(obs[-1] if obs else "")
        if x[0] != "x" or x[1] != "0":
            rep.fail(attrs, ["exec-fault"], rp, "%r [%s] died when called: %s" % (t, e1.cfg_name(cfg), obs))
        elif int(x[2], 16) != want:
            rep.fail(attrs, ["exec-value"], rp, "%r [%s] returned 0x%s, want 0x%x" % (t, e1.cfg_name(cfg), x[2], want))
    rep.bounds["executed_programs"] = len(runnable)
    rep.states += len(ec)
    rep.distinct_n += len(ec)
    rep.sample({"program": ec[len(ec) // 2][0], "expected_rax": "0x%x" % ec[len(ec) // 2][1]})


def replay(r, verbose=False):
    if r.get("kind") == "exec":
        cfg = tuple(r["cfg"])
        obs = hexec.run(["c64:p:cc\t%s\tA%s\tx" % (hexec.cfg_ops(cfg), hexec.esc_fast(r["text"]))], dangerous=True,
                        nproc=1)[0]
        if verbose:
            print(r["text"], cfg, obs, "want 0x%x" % r["want"])
        x = obs[-1].split(":") if obs else ["?"]
        return not (x[0] == "x" and x[1] == "0" and int(x[2], 16) == r["want"])
    return e1.replay(r, verbose)


def run(tier, seed):
    rep = Report(PROP, tier, seed)
    rep.rule = ("every immediate-taking form x destination kind (accumulator / low / extended / high-byte register of each "
                "width, memory with each size keyword: plain, rax-based, SIB, extended base) x every value of the boundary "
                "alphabet representable at that slot x {decimal, hex, negated} x the 3 mov-immediate modes; the decoded "
                "immediate, sign-/zero-extended as the architecture does, must equal the written value modulo the operand "
                "size; `mov r, v; [mov rax, r;] ret` is executed for every 64-bit v after its decode check. "
                "distinct_nontrivial = distinct lines that produced code")
    for name, gen in (("alu/test/mov", cases_alu), ("shift/rotate/shld/shrd/xabort", cases_shift),
                      ("imul/push", cases_imul_push)):
        if rep.expired():
            rep.cut_short("block %s not run" % name)
            continue
        cases = list(gen(tier, seed))
        res = e1.run_block(rep, cases, MOVMODES, validate_tag=PROP, fit_retry=True)
        rep.bounds[name] = len(cases)
        for smp in res[:2]:
            rep.sample(smp)
    run_exec(rep, tier, seed)
    rep.bounds["values"] = len(values(tier, seed))
    rep.assumptions = ["GNU objdump is the meaning of bytes", "generated code is executed only after decoding as mov..ret, in a child"]
    return rep.finish(replay)
