"""C02 — memory operands encode exactly the written effective address (E1)."""
from .. import e1, hexec, isa, shapes
from ..report import Report

PROP = "C02"
SIBCFGS = [("SMART", w, b) for w in ("STRICT", "NASM") for b in ("STRICT", "NASM")]


def R(n):
    return ("r", n)


def M(kw, width, sh):
    b, i, sc, d, st = sh
    return ("m", kw, width, b, i, sc, d, st)


def A(form, width, sh, **kw):
    a = {"form": form, "width": str(width), "class": "mem"}
    a.update(shapes.shape_class(*sh[:4]))
    a.update(kw)
    return a


def reps(sh, full=True):
    """One representative per encoding path that takes a memory operand, for one address shape."""
    W = (8, 16, 32, 64)
    regs = {8: ("cl", "r9b"), 16: ("cx", "r9w"), 32: ("ecx", "r9d"), 64: ("rcx", "r9")}
    for w in W:
        for r in regs[w] if full else regs[w][:1]:
            for kw in ((None, isa.KW[w]) if full else (None,)):
                yield e1.mk("mov", (M(kw, w, sh), R(r)), A("m,r", w, sh, path="MR", kw=kw or "none"))
                yield e1.mk("mov", (R(r), M(kw, w, sh)), A("r,m", w, sh, path="RM", kw=kw or "none"))
    for r in ("rdx", "r10", "edx", "dx"):
        yield e1.mk("lea", (R(r), M(None, None, sh)), A("r,m", isa.REGW[r], sh, path="RM-lea", kw="none"))
    for w in W:
        yield e1.mk("inc", (M(isa.KW[w], w, sh),), A("m", w, sh, path="M", kw=isa.KW[w]))
        yield e1.mk("add", (M(isa.KW[w], w, sh), ("i", 5, "hex")), A("m,i", w, sh, path="MI", kw=isa.KW[w]), immw=w)
        yield e1.mk("shl", (M(isa.KW[w], w, sh), ("i", 3, "hex")), A("m,i8", w, sh, path="MI8", kw=isa.KW[w]), immw=8)
        if w in (8, 32, 64):   # word [m], imm is the separate immediate finding F030 of C03
            yield e1.mk("mov", (M(isa.KW[w], w, sh), ("i", 0x12, "hex")), A("m,i", w, sh, path="MI-mov", kw=isa.KW[w]),
                        immw=w)
    # nasm wants an operation size for `dec [m]` / `push [m]`; the library's size-less spelling is validated
    # against nasm's explicit one (dec: access width is "don't care", push: m64)
    b, i, sc, d, st = sh
    yield e1.mk("dec", (M(None, None, sh),), A("m", "none", sh, path="M", kw="none",
                                                nasm_text="dec dword " + isa.mem_text(None, b, i, sc, d, st)))
    yield e1.mk("seta", (M(None, 8, sh),), A("m", 8, sh, path="M-set", kw="none"))
    yield e1.mk("push", (M(None, 64, sh),), A("m", 64, sh, path="O-push", kw="none",
                                              nasm_text="push qword " + isa.mem_text(None, b, i, sc, d, st)))
    yield e1.mk("push", (M("qword", 64, sh),), A("m", 64, sh, path="O-push", kw="qword"))
    yield e1.mk("paddb", (("x", 3), M(None, 128, sh)), A("x,m", 128, sh, path="SSE-RM"))
    yield e1.mk("paddb", (("x", 11), M(None, 128, sh)), A("x,m", 128, sh, path="SSE-RM"))
    yield e1.mk("paddb", (("mm", 3), M(None, 64, sh)), A("mm,m", 64, sh, path="MMX-RM"))
    yield e1.mk("movq", (M(None, 64, sh), ("x", 9)), A("m,x", 64, sh, path="SSE-MR"))
    yield e1.mk("vpaddd", (("y", 1), ("y", 10), M(None, 256, sh)), A("y,y,m", 256, sh, path="VEX-RVM"))
    yield e1.mk("vpaddd", (("x", 9), ("x", 2), M(None, 128, sh)), A("x,x,m", 128, sh, path="VEX-RVM"))
    yield e1.mk("vmovupd", (("y", 12), M(None, 256, sh)), A("y,m", 256, sh, path="VEX-RM"))
    yield e1.mk("vmovupd", (M(None, 256, sh), ("y", 3)), A("m,y", 256, sh, path="VEX-MR"))
    yield e1.mk("bextr", (R("rdx"), M(None, 64, sh), R("r10")), A("r,m,r", 64, sh, path="VEX-RMV"))
    yield e1.mk("mulx", (R("r11"), R("rdx"), M(None, 64, sh)), A("r,r,m", 64, sh, path="VEX-RVM-gp"))
    yield e1.mk("rorx", (R("rdx"), M(None, 64, sh), ("i", 7, "hex")), A("r,m,i", 64, sh, path="VEX-RM-imm"), immw=8)


def every_mnemonic(sh):
    """Every memory-taking mnemonic (beyond the representatives) on one shape."""
    for mn in isa.ALU2 + ["test"]:
        yield e1.mk(mn, (M(None, 32, sh), R("edx")), A("m,r", 32, sh, path="MR"))
        yield e1.mk(mn, (M(None, 64, sh), R("r10")), A("m,r", 64, sh, path="MR"))
    for mn in isa.ALU2 + ["xchg", "imul"]:
        yield e1.mk(mn, (R("edx"), M(None, 32, sh)), A("r,m", 32, sh, path="RM"), flags=("commute",) if mn == "xchg" else ())
        yield e1.mk(mn, (R("r10w"), M(None, 16, sh)), A("r,m", 16, sh, path="RM"), flags=("commute",) if mn == "xchg" else ())
    for cc in ("a", "ne", "z", "nle", "s"):
        yield e1.mk("cmov" + cc, (R("rdx"), M(None, 64, sh)), A("r,m", 64, sh, path="RM"))
        yield e1.mk("set" + cc, (M(None, 8, sh),), A("m", 8, sh, path="M-set"))
    yield e1.mk("movzx", (R("edx"), M("byte", 8, sh)), A("r,m8", 32, sh, path="RM", kw="byte"))
    yield e1.mk("movzx", (R("r10"), M("byte", 8, sh)), A("r,m8", 64, sh, path="RM", kw="byte"))
    yield e1.mk("movzx", (R("edx"), M("word", 16, sh)), A("r,m16", 32, sh, path="RM", kw="word"))
    yield e1.mk("movzx", (R("r10"), M("word", 16, sh)), A("r,m16", 64, sh, path="RM", kw="word"))
    for mn in isa.UNARY:
        yield e1.mk(mn, (M("dword", 32, sh),), A("m", 32, sh, path="M", kw="dword"))
        yield e1.mk(mn, (M("byte", 8, sh),), A("m", 8, sh, path="M", kw="byte"))
    for mn in isa.SHIFTS:
        yield e1.mk(mn, (M("qword", 64, sh), R("cl")), A("m,cl", 64, sh, path="M-shift", kw="qword"))
        yield e1.mk(mn, (M("word", 16, sh), ("i", 1, "dec")), A("m,1", 16, sh, path="M-shift", kw="word"), immw=8)
    yield e1.mk("rcr", (M("dword", 32, sh), ("i", 1, "dec")), A("m,1", 32, sh, path="M-shift", kw="dword"), immw=8)
    yield e1.mk("shld", (M(None, 32, sh), R("edx"), R("cl")), A("m,r,cl", 32, sh, path="MR"))
    yield e1.mk("shld", (M(None, 64, sh), R("r10"), ("i", 3, "hex")), A("m,r,i8", 64, sh, path="MR"), immw=8)
    yield e1.mk("shrd", (M(None, 64, sh), R("r10"), ("i", 3, "hex")), A("m,r,i8", 64, sh, path="MR"), immw=8)
    for mn in isa.ADX:
        yield e1.mk(mn, (R("rdx"), M(None, 64, sh)), A("r,m", 64, sh, path="RM"))
    for mn in isa.PREFETCH:
        yield e1.mk(mn, (M(None, 8, sh),), A("m", 8, sh, path="M-byteopd"))
    yield e1.mk("imul", (R("rdx"), M(None, 64, sh), ("i", 0x1234, "hex")), A("r,m,i", 64, sh, path="RM-imm"), immw=64)
    yield e1.mk("movd", (("x", 1), M(None, 32, sh)), A("x,m", 32, sh, path="SSE-RM"))
    yield e1.mk("movntdqa", (("x", 1), M(None, 128, sh)), A("x,m", 128, sh, path="SSE-RM"))
    yield e1.mk("movntq", (M(None, 64, sh), ("mm", 1)), A("m,mm", 64, sh, path="MMX-MR"))
    yield e1.mk("vperm2i128", (("y", 1), ("y", 2), M(None, 256, sh), ("i", 1, "hex")), A("y,y,m,i", 256, sh, path="VEX-RVM"),
                immw=8)
    yield e1.mk("vmovdqu", (M(None, 128, sh), ("x", 3)), A("m,x", 128, sh, path="VEX-MR"))


def all_cases(tier, seed=0):
    G = shapes.grid(tier)
    for sh in G:
        yield from reps(sh, full=(tier == "thorough"))
    sub = shapes.key_shapes() if tier == "quick" else shapes.grid("quick")
    for sh in sub:
        yield from every_mnemonic(sh)


def replay(r, verbose=False):
    return e1.replay(r, verbose)


def run(tier, seed):
    rep = Report(PROP, tier, seed)
    rep.rule = ("address shapes = base x index x scale (both factor orders) x displacement classes across the disp8/disp32 "
                "boundaries of both signs, 64- and 32-bit address registers, in the documented syntaxes; each shape under one "
                "representative instruction per encoding path (MR, RM, lea, M, MI, MI8, setcc, push, SSE/MMX RM+MR, VEX "
                "RVM/RMV/RM/MR) with and without size keywords, and every other memory-taking mnemonic over a reduced grid; "
                "4 SIB configurations; decoded linear form, displacement, address size and access width must equal the "
                "written ones (STRICT swap: stack-pointer index literal). distinct_nontrivial = distinct lines that produced code")
    G = shapes.grid(tier)
    rep.bounds["shapes_in_grid"] = len(G)
    step = 400 if tier == "quick" else 1500
    nrep = 0
    for k in range(0, len(G), step):
        if rep.expired():
            rep.cut_short("representative grid cut at shape %d of %d" % (k, len(G)))
            break
        cases = [c for sh in G[k:k + step] for c in reps(sh, full=(tier == "thorough"))]
        nrep += len(cases)
        res = e1.run_block(rep, cases, SIBCFGS, validate_tag=PROP, note_outcome=(k == 0))
        if k == 0:
            for smp in res[:3]:
                rep.sample(smp)
    rep.bounds["representative_cases"] = nrep
    sub = shapes.key_shapes() if tier == "quick" else shapes.grid("quick")
    if not rep.expired():
        cases = [c for sh in sub for c in every_mnemonic(sh)]
        res = e1.run_block(rep, cases, SIBCFGS, validate_tag=PROP, note_outcome=False)
        rep.bounds["every_mnemonic_cases"] = len(cases)
        for smp in res[:2]:
            rep.sample(smp)
    else:
        rep.cut_short("every-mnemonic block not run")
    rep.bounds["configurations"] = len(SIBCFGS)
    rep.assumptions = ["GNU objdump is the meaning of bytes", "mc/isa.py is the meaning of text",
                       "a size keyword is only written where it agrees with the register operand"]
    return rep.finish(replay)
