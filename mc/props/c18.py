"""C18 — independent instances can be used concurrently from different threads (E4 scheduler + TSan pass)."""
import os
import re
import subprocess
from concurrent.futures import ThreadPoolExecutor

from .. import build, hexec
from ..report import Report

PROP = "C18"
NSH = 16


def explore(exe, nthreads, variant, k, gran, budget):
    env = dict(os.environ)
    env["SCHED_BUDGET"] = str(int(budget))

    def one(sh):
        try:
            p = subprocess.run([exe, str(nthreads), str(variant), str(k), str(sh), str(NSH)] + ([gran] if gran != "full" else []),
                               stdout=subprocess.PIPE, stderr=subprocess.DEVNULL, timeout=budget + 600, start_new_session=True, env=env)
            return p.stdout.decode("latin-1")
        except subprocess.TimeoutExpired as e:
            subprocess.run(["pkill", "-9", "-f", os.path.dirname(exe)])
            return (e.stdout or b"").decode("latin-1")     # no DONE line: reported as an incomplete exploration
    with ThreadPoolExecutor(max_workers=NSH) as ex:
        outs = list(ex.map(one, range(NSH)))
    sched = 0
    points = 0
    outcomes = 0
    viols = []
    ok = True
    for o in outs:
        done = False
        for ln in o.split("\n"):
            if ln.startswith("VIOL "):
                m = re.match(r"VIOL (\S+) \[([^\]]*)\] \| (.*)", ln)
                if m:
                    viols.append((m.group(1), m.group(2), m.group(3)))
            elif ln.startswith("DONE "):
                f = dict(x.split("=") for x in ln.split()[1:])
                sched += int(f["schedules"])
                points = max(points, int(f["points"]))
                outcomes = max(outcomes, int(f["outcomes"]))
                done = f.get("capped", "0") == "0"
        ok = ok and done
    return sched, points, outcomes, viols, ok


def tsan_pass(threads, iters):
    exe = build.c18_tsan()
    env = dict(os.environ)
    env["TSAN_OPTIONS"] = "exitcode=66 halt_on_error=0 report_signal_unsafe=0"
    p = subprocess.run([exe, str(threads), str(iters)], stdout=subprocess.PIPE, stderr=subprocess.PIPE, env=env, timeout=1800)
    err = p.stderr.decode("latin-1")
    races = []
    for blk in err.split("WARNING: ThreadSanitizer:")[1:]:
        kind = blk.split("\n", 1)[0].strip()
        loc = re.search(r"#0 (\w+) (/repo/src/\w+\.c):\d+", blk)
        var = re.search(r"Location is global '(\w+)'", blk)
        races.append((kind.split("(")[0].strip(), loc.group(1) if loc else "?", var.group(1) if var else "?"))
    return p.returncode, p.stdout.decode("latin-1"), races


def run(tier, seed):
    rep = Report(PROP, tier, seed)
    exe, gran = build.sched()
    rep.rule = ("2 and 3 real pthreads, each creating / configuring / assembling on / destroying its own instance (caller buffer or "
                "internal; body 2: create, assemble 7 kB so that the buffer grows, destroy, create again, assemble, destroy), run "
                "under a cooperative scheduler with scheduling points from compiler instrumentation: every library function entry "
                "and exit, every atomic operation, every load/store of writable global data, every mmap/munmap/mremap/"
                "pthread_once/mutex call ('access' runs keep only the shared-memory operations); ALL schedules with at most k pre-emptions are enumerated "
                "depth-first (k iterated 0,1,2(,3)); oracle: every thread's return values, offsets, count and bytes equal its "
                "single-threaded reference, no crash; plus a free-running ThreadSanitizer pass of the same bodies (16 threads). "
                "distinct_nontrivial = schedules with at least one pre-emption")
    rep.extra["granularity"] = gran
    # (threads, body, pre-emption bound, granularity); "access" = visible operations only (sched.c), which is what makes the
    # higher bounds and the body with buffer history (2) affordable; "full" keeps points inside stretches that touch no
    # library global, e.g. around calls into libc functions with hidden static state
    plan = [(2, 0, 2, "full"), (2, 1, 2, "full"), (3, 0, 1, "full"), (2, 2, 2, "access"), (3, 2, 1, "access"), (2, 0, 3, "access"),
            (2, 1, 3, "access"), (3, 1, 2, "access")] if tier == "quick" else \
           [(2, 0, 2, "full"), (2, 1, 2, "full"), (2, 2, 2, "full"), (3, 0, 2, "full"), (3, 1, 2, "full"), (4, 0, 1, "full"),
            (2, 0, 4, "access"), (2, 1, 4, "access"), (2, 2, 3, "access"), (3, 0, 3, "access"), (3, 1, 3, "access"),
            (3, 2, 2, "access"), (4, 0, 2, "access"), (4, 2, 1, "access"), (2, 0, 3, "coarse"), (2, 2, 4, "access")]
    for n, variant, k, g in plan:
        if rep.expired():
            rep.cut_short("threads=%d variant=%d k=%d not run" % (n, variant, k))
            continue
        budget = max(20, min(rep.time_left(), 45 if tier == "quick" else 900))
        sched, points, outcomes, viols, ok = explore(exe, n, variant, k, g, budget)
        rep.evaluations += sched
        rep.traces += sched
        rep.states += sched
        rep.transitions += sched * points
        rep.distinct_n += max(0, sched - 1)
        rep.bounds["threads=%d body=%d %s" % (n, variant, g)] = {"preemption_bound_completed": k if ok else "incomplete",
                                                                 "schedules": sched, "points_per_execution": points,
                                                                 "distinct_outcomes": outcomes}
        rep.outcomes.add((n, variant, outcomes))
        if not ok:
            rep.cut_short("exploration of threads=%d body=%d k=%d stopped at its time budget or ended abnormally; schedules explored so "
                          "far are counted" % (n, variant, k))
        for kind, schedule, detail in viols[:10]:
            rep.fail({"class": "schedule", "threads": str(n), "body": str(variant), "kind": kind,
                      "npreempt": str(len([x for x in schedule.split(",") if x]))},
                     [kind], {"kind": "schedule", "threads": n, "body": variant, "schedule": schedule or "-", "gran": g},
                     "threads=%d body=%d schedule [%s]: %s" % (n, variant, schedule, detail))
    # free-running ThreadSanitizer pass (a serialising scheduler would hide races from the detector)
    rc, out, races = tsan_pass(16, 500 if tier == "quick" else 4000)
    rep.evaluations += 1
    rep.bounds["tsan_pass"] = out.strip()
    seen = set()
    for kind, fn, var in races:
        if (kind, fn, var) in seen:
            continue
        seen.add((kind, fn, var))
        rep.fail({"class": "tsan", "kind": kind, "function": fn, "global": var}, ["data-race"],
                 {"kind": "tsan"}, "ThreadSanitizer: %s in %s on %s" % (kind, fn, var))
    if rc not in (0, 66) or (rc == 0 and "mismatches=0" not in out):
        rep.fail({"class": "tsan", "kind": "result"}, ["result"], {"kind": "tsan"}, "free-running pass: exit %d, %s" % (rc, out.strip()))
    rep.sample({"schedule": "[117>1,203>0]", "meaning": "at scheduling point 117 pre-empt the running thread in favour of thread 1, at point 203 "
                "switch back to thread 0; everything else runs to completion"})
    rep.sample({"thread0": "create(buf) set_all(STRICT) assemble('mov rax, 0x7fffffff; lea r15,[rax+rsp]') destroy",
                "thread1": "create(internal) mov_imm(NASM) assemble('add rcx, 0x10; vpaddd ymm1, ymm2, [2*rax]') destroy"})
    rep.assumptions = ["sequentially consistent interleavings at the injected points only (the tables are _Atomic seq_cst; TSan reports if "
                       "they stop being atomic)", "the library has no blocking synchronisation, so every unfinished thread is enabled"]
    return rep.finish(replay)


def replay(r, verbose=False):
    if r["kind"] == "tsan":
        rc, out, races = tsan_pass(16, 500)
        if verbose:
            print(rc, out, races)
        return bool(races) or rc not in (0,)
    exe, _ = build.sched()
    outs = []
    for _ in range(2):     # replay twice: the same schedule must fail identically
        p = subprocess.run([exe, str(r["threads"]), str(r["body"]), "replay", r["schedule"]] + ([r["gran"]] if r.get("gran", "full") != "full" else []),
                           stdout=subprocess.PIPE, stderr=subprocess.DEVNULL)
        outs.append(p.stdout.decode("latin-1"))
    if verbose:
        print(outs[0])
    v = ["VIOL" in o for o in outs]
    if v[0] != v[1]:
        raise RuntimeError("schedule replay diverged: harness nondeterminism, not a violation")
    return v[0]
