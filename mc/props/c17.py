"""C17 — OS resource failures are reported, never crash or corrupt (E3: exhaustive single / double fault enumeration)."""
import itertools
import os
import shutil

from .. import hexec
from ..report import Report

PROP = "C17"
EARLY = "mov rax, 0x2a\nnop\n"
BIG = "mov rax, 0x1122334455667788\n" * 1400 + "ret\n"      # 14 kB: the internal buffer grows twice
HUGE = "mov rax, 0x1122334455667788\n" * 20000 + "ret\n"    # 200 kB: more than three 64 KiB blocks
# library calls whose refusal must surface as the documented failure value of the API call in progress
MUST_FAIL = {"malloc", "mmap", "mremap", "open", "fstat", "fopen", "fwrite", "read", "write"}
SOFT = {"read", "write"}      # with mode /1 these transfer half of what was asked for: legal, must be absorbed or reported


def scenarios(tmp):
    src = os.path.join(tmp, "prog.asm")
    with open(src, "w") as f:
        f.write("add rax, rbx\nsub rax, rcx\nret\n")
    out = os.path.join(tmp, "out.bin")
    empty = os.path.join(tmp, "empty.asm")
    open(empty, "w").close()
    bigsrc = os.path.join(tmp, "big.asm")
    with open(bigsrc, "w") as f:
        f.write(BIG)
    nops = os.path.join(tmp, "nops.asm")
    with open(nops, "w") as f:
        f.write("nop\n" * 8)      # any prefix of half the size is itself a program: a short read that is taken for the whole file shows as a wrong result, not as a parse error
    S = {
        "S13-file-every-half-is-a-program": ["i", "A" + hexec.esc(EARLY), "f" + hexec.esc(nops), "o2", "G", "d"],
        "S14-file-counting-every-half-is-a-program": ["c256:p:cc", "A" + hexec.esc(EARLY), "n4:" + hexec.esc(nops), "o2", "G", "d"],
        "S1-caller-buffer": ["c256:p:cc", "A" + hexec.esc(EARLY), "A" + hexec.esc("add rax, rbx\n"), "o0", "G", "d"],
        "S2-internal-growth": ["i", "A" + hexec.esc(EARLY), "A" + hexec.esc(BIG), "o2", "G", "d"],
        # the same with a retry after a failed growth: the instance must not believe it owns more memory than it does
        "S2b-growth-retry": ["i", "A" + hexec.esc(EARLY), "A" + hexec.esc(BIG), "o6", "A" + hexec.esc(BIG), "o2", "G", "d"],
        "S3-file": ["i", "A" + hexec.esc(EARLY), "f" + hexec.esc(src), "o2", "G", "d"],
        "S4-file-counting": ["c256:p:cc", "A" + hexec.esc(EARLY), "n4:" + hexec.esc(src), "o2", "G", "d"],
        "S5-bin-file": ["i", "A" + hexec.esc(EARLY), "A" + hexec.esc(BIG), "B" + hexec.esc(out), "G", "d"],
        # growth while chunk fitting pads, growth from inside the file entry point, growth during a counting call, and binary
        # output before and after growth
        "S6-fitting-growth": ["i", "k16", "A" + hexec.esc(EARLY), "A" + hexec.esc(BIG), "o2", "G", "d"],
        "S7-file-growth": ["i", "A" + hexec.esc(EARLY), "f" + hexec.esc(bigsrc), "o2", "G", "d"],
        "S8-counting-growth": ["i", "A" + hexec.esc(EARLY), "N16:" + hexec.esc(BIG), "o2", "G", "d"],
        # the degenerate file: nothing to read, but the same resources are requested
        "S10-empty-file": ["i", "A" + hexec.esc(EARLY), "f" + hexec.esc(empty), "o2", "G", "d"],
        "S11-empty-file-counting": ["c256:p:cc", "A" + hexec.esc(EARLY), "n4:" + hexec.esc(empty), "o2", "G", "d"],
        # 200 kB of code (33 growth steps) written to a file: every later call of a long history can be refused too
        "S12-bin-file-large": ["i", "A" + hexec.esc(EARLY), "A" + hexec.esc(HUGE), "B" + hexec.esc(out), "G", "d"],
        "S9-bin-file-twice": ["i", "A" + hexec.esc(EARLY), "B" + hexec.esc(out), "A" + hexec.esc(BIG), "B" + hexec.esc(out), "G",
                              "d"],
    }
    return S, out


def fnv(b):
    h = 1469598103934665603
    for x in b:
        h = ((h ^ x) * 1099511628211) & 0xffffffffffffffff
    return h


def parse_trace(obs):
    t = next((o[2:] for o in obs if o.startswith("T:")), "")
    steps = t.split("|")[1:]          # one segment per op (the first op is the plan 'Z')
    calls = []
    for si, seg in enumerate(steps):
        for c in seg.split(","):
            if c:
                calls.append((si, c.rstrip("!"), c.endswith("!")))
    return calls


def run_plan(ops, plan, out_path=None):
    if out_path and os.path.exists(out_path):
        os.remove(out_path)
    h = "ZG%s%s\t%s" % ("," if plan else "", plan, "\t".join(ops))
    obs = hexec.run([h], variant="wrap", dangerous=True, nproc=1, timeout=20)[0]
    data = None
    if out_path and os.path.exists(out_path):
        with open(out_path, "rb") as f:
            data = f.read()
    return obs, data


def judge(name, ops, ref_obs, ref_calls, plan_idx, obs, filedata, ref_file):
    """-> (discrepancies, description of the faulted calls)"""
    disc = set()
    if hexec.is_crash(obs):
        return {"crash"}, "?"
    calls = parse_trace(obs)
    if any(c.startswith("BADMUNMAP") for _, c, _ in calls):
        disc.add("munmap-of-memory-the-library-does-not-own")
    calls = [c for c in calls if not c[1].startswith("BADMUNMAP")]
    faulted = [(si, c) for si, c, f in calls if f]
    desc = ",".join("%s@%s" % (c, ops[si - 1][:1] if si >= 1 else "Z") for si, c in faulted)
    # step index in obs: obs[0] is 'Z:', obs[i] belongs to ops[i-1]
    fstep = {si for si, _ in faulted}
    demanded = {si for si, c in faulted if c in MUST_FAIL}
    soft = str(plan_idx).endswith("/1") and bool(faulted) and all(c in SOFT for _, c in faulted)
    if soft:
        demanded = set()
    dead = False
    for i, op in enumerate(ops, start=1):
        o = obs[i] if i < len(obs) else ""
        r = ref_obs[i]
        kind = op[0]
        if kind in "ci":
            ok = o.endswith(":1")
            if i in demanded and ok:
                disc.add("create-succeeded-despite-refusal")
            if not ok:
                dead = True
                if i not in fstep:
                    disc.add("create-failed-without-fault")
            continue
        if dead:
            continue
        if kind in "AfnN":
            a = hexec.Asm(o)
            ra = hexec.Asm(r)
            if i in demanded:
                if a.ret == 0:
                    disc.add("success-despite-refusal")
            elif soft and i in fstep:
                if a.ret == 0 and (a.off, a.hex) != (ra.off, ra.hex):
                    disc.add("wrong-result-after-short-transfer")
            elif i not in fstep and not any(s < i for s in fstep if ops[s - 1][0] in "AfnN"):
                if (a.ret, a.off, a.hex) != (ra.ret, ra.off, ra.hex):
                    disc.add("result-differs-without-fault")
            elif i not in fstep and i >= 2 and ops[i - 2][0] == "o":
                # a retry from an explicitly set offset after an earlier failed call: must behave like the fault-free retry
                if (a.ret, a.off, a.hex) != (ra.ret, ra.off, ra.hex):
                    disc.add("retry-after-failure-differs")
        elif kind == "B":
            f = o.split(":")
            ret = int(f[1]) if len(f) > 2 and f[1].lstrip("-").isdigit() else None
            off = int(f[2]) if len(f) > 2 and f[2].lstrip("-").isdigit() else -1
            if i in demanded and ret == 0:
                disc.add("binfile-success-despite-refusal")
            last_b = max(k for k, x in enumerate(ops, start=1) if x[0] == "B")
            if ret == 0 and i == last_b:      # (the file is read back once, after the whole history: an earlier output was replaced)
                # success is only allowed if the file holds exactly code[0, offset); the code is reported by the G step
                g = next((x for x in obs[i + 1:] if x.startswith("G:")), "")
                gf = g.split(":")
                want = None
                if len(gf) > 2 and gf[1] == str(off):
                    want = ":".join(gf[2:-1])
                have = None
                if filedata is not None:
                    have = filedata.hex() if len(filedata) <= 4096 else "#%d:%016x" % (len(filedata), fnv(filedata))
                if off < 0 or want is None or have != want:
                    disc.add("binfile-success-but-file-incomplete")
        elif kind == "G":
            # code assembled earlier stays intact and retrievable
            if o != r and not any(ops[s - 1][0] in "ci" for s in fstep):
                ga, gr = o.split(":"), r.split(":")
                if kind == "G" and len(ga) > 2 and len(gr) > 2:
                    n = min(len(ga[2]), len(gr[2]))
                    # the earlier code is the common prefix set by the scenario's explicit asm_set_offset
                    if ga[1] == gr[1] and ga[2][:n] != gr[2][:n]:
                        disc.add("earlier-code-changed")
                    elif ga[1] != gr[1] and ops[i - 2][0] == "o" and ga[2][:4] != gr[2][:4]:
                        disc.add("earlier-code-changed")
        elif kind == "d":
            if not o.startswith("d:0"):
                disc.add("destroy-failed")
    return disc, desc


def run(tier, seed):
    rep = Report(PROP, tier, seed, level="fault_enumeration")
    tmp = hexec.tmpdir()
    try:
        S, out = scenarios(tmp)
        rep.rule = ("13 API scenarios (200 kB of code written to a file; empty file through both file entry points; caller buffer; internal buffer growing twice, with retry, under chunk fitting, from the file entry point, "
                    "in a counting call; file assembly; file counting; binary output once and twice); "
                    "the library-side libc calls (malloc mmap mremap munmap open fstat close fopen fwrite fclose read write) of each are "
                    "recorded through -Wl,--wrap interposers, then the scenario is re-run once for EVERY call index refused "
                    "(quick) and for EVERY ordered pair of refused indices (thorough), plus short-write variants of fwrite; each "
                    "run in a forked child; oracle: no abnormal termination, documented failure value of the API call in progress, "
                    "earlier code intact, instance destroyable, bin file complete whenever success is reported. "
                    "distinct_nontrivial = distinct (scenario, fault vector) runs in which a fault was actually delivered")
        for name, ops in S.items():
            ref_obs, ref_file = run_plan(ops, "", out)
            calls = [c for c in parse_trace(ref_obs) if not c[1].startswith("BADMUNMAP")]
            n = len(calls)
            rep.bounds[name + "_calls"] = [c for _, c, _ in calls]
            plans = [[k] for k in range(n)]
            # refusing a call can create new calls behind it (error paths); explore those too, one level deep
            if tier == "thorough":
                plans += [[a, b] for a in range(n + 3) for b in range(a + 1, n + 6)]
            extra = []
            for k, (_, c, _) in enumerate(calls):
                if c == "fwrite":
                    extra += ["%d/1" % k, "%d/2" % k]
                if c in SOFT:
                    extra += ["%d/1" % k]
            todo = [",".join(map(str, p)) for p in plans] + extra
            for plan in todo:
                if rep.expired():
                    rep.cut_short("scenario %s cut" % name)
                    break
                obs, data = run_plan(ops, plan, out)
                rep.evaluations += 1
                rep.traces += 1
                rep.transitions += len(ops)
                delivered = [c for _, c, f in parse_trace(obs) if f] if not hexec.is_crash(obs) else ["?"]
                if not delivered:
                    continue
                rep.distinct_n += 1
                disc, desc = judge(name, ops, ref_obs, calls, plan, obs, data, ref_file)
                rep.outcomes.add((name, desc, tuple(sorted(disc))))
                if disc:
                    rep.fail({"class": name, "faulted": desc, "nfaults": str(len(delivered)),
                              "first": delivered[0] if delivered else ""},
                             disc, {"scenario": name, "plan": plan},
                             "%s with refused %s (plan %s): %s; obs %s" % (name, desc, plan, sorted(disc),
                                                                          [o[:40] for o in obs]))
            rep.states += 1
            rep.sample({"scenario": name, "ops": [o[:40] for o in ops], "library_calls": [c for _, c, _ in calls]})
    finally:
        shutil.rmtree(tmp, ignore_errors=True)
    rep.assumptions = ["a refusal is: malloc NULL, mmap/mremap MAP_FAILED, open/fstat/close/munmap -1, fopen NULL, fwrite short, read/write -1 or (separately) a short transfer that must be absorbed or reported, "
                       "fclose EOF (data written)", "for refused munmap/close/fclose only survival is demanded"]
    return rep.finish(replay)


def replay(r, verbose=False):
    tmp = hexec.tmpdir()
    try:
        S, out = scenarios(tmp)
        ops = S[r["scenario"]]
        ref_obs, ref_file = run_plan(ops, "", out)
        obs, data = run_plan(ops, r["plan"], out)
        disc, desc = judge(r["scenario"], ops, ref_obs, parse_trace(ref_obs), r["plan"], obs, data, ref_file)
        if verbose:
            print(r, "\nfaulted:", desc, "\nobs:", [o[:60] for o in obs], "\n->", sorted(disc))
        return bool(disc)
    finally:
        shutil.rmtree(tmp, ignore_errors=True)
