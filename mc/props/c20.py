"""C20 — asmline's outputs and exit status reflect the library result (E2 over invocations)."""
import itertools
import os
import re
import shutil
import subprocess
from concurrent.futures import ThreadPoolExecutor

from .. import build, hexec
from ..report import Report

PROP = "C20"

PROGRAMS = {
    "ret42": "mov rax, 0x2a\nret\n",
    "modes": "mov rax, 0x7fffffff\nlea rcx, [rax+rsp]\nlea rcx, [2*rax]\nmov rax, 0x000000007fffffff\nret\n",
    "lengths": "mov rax, 0x1122334455667788\nadd rax, rcx\nmov ecx, 0x12345678\nadd rcx, 0x12345678\nnop\nmov rax, 0x10\nret\n",
    "comments": "; header\nstart:\n  mov rax, 7 ; seven\n\n  add rax, 1\nsection .text\n  ret\n",
    "one": "ret\n",
    "rejected": "mov rax, 1\nfoo bar\nret\n",
    "rejected-first": "mov rax, [rbx\nret\n",
    "nofinalnl": "mov rax, 5\nret",
    # physical lines much longer than their instruction (comment text that reads like code, runs of blanks): a reader with a
    # fixed line buffer splits them
    "longlines": "mov eax, 0x2a ;" + " " * 90 + "inc rax\n" + "add rax, 0x1" + " " * 150 + "; " + "x" * 300 + " inc rax\n" +
                 ";" + "-" * 97 + "\n" + ";" + "-" * 98 + "\n" + ";" + "-" * 99 + " nop\n" + " " * 120 + "ret ; done\n",
    # larger than the library's initial buffer (the code moves while asmline is running)
    "big": "mov rcx, 0x1122334455667788\n" * 700 + "mov rax, 0x1234\nret\n",
}
LINE_POOL = ["mov rax, 0x1122334455667788", "add rax, rcx", "", "; comment", "mov [rdi+0x10], rax", "lea r15, [rax+rcx*2+0x7]",
             "xor r8, r9", "nop", "lbl:", "mov ecx, 0x12345678"]


def prog_text(name):
    """Programs by name; 'lines-N' is a program of exactly N lines (instructions, blank, comment and label lines in a fixed
    rotation, 'ret' last): the number of lines is a dimension of its own for a tool that reads its input line by line."""
    if name.startswith("lines-"):
        n = int(name[6:])
        return "".join(LINE_POOL[(7 * i) % len(LINE_POOL)] + "\n" for i in range(n - 1)) + "ret\n"
    return PROGRAMS[name]


def line_counts(tier):
    ns = list(range(1, 261)) + [511, 512, 513, 1023, 1024, 1025, 2048, 4096]
    if tier == "thorough":
        ns += list(range(261, 600)) + [8192, 16384]
    return ns


# flag -> setter ops (as documented in asmline --help), and the option dimension(s) it touches
FLAGS = {
    "-n": ("a1", "all"), "-t": ("a0", "all"), "-s": ("a2", "mov"),
    "--nasm-mov-imm": ("m1", "mov"), "--strict-mov-imm": ("m0", "mov"), "--smart-mov-imm": ("m2", "mov"),
    "--nasm-sib": ("s1", "sib"), "--strict-sib": ("s0", "sib"),
    "--nasm-sib-index-base-swap": ("w1", "swap"), "--strict-sib-index-base-swap": ("w0", "swap"),
    "--nasm-sib-no-base": ("b1", "nobase"), "--strict-sib-no-base": ("b0", "nobase"),
}
CONFLICT = {("all", "all"), ("all", "mov"), ("all", "sib"), ("all", "swap"), ("all", "nobase"), ("mov", "mov"), ("sib", "sib"),
            ("sib", "swap"), ("sib", "nobase"), ("swap", "swap"), ("nobase", "nobase")}


def covers(a, b):
    """flag a is an umbrella flag whose documented expansion contains a flag of b's dimension"""
    da, db = FLAGS[a][1], FLAGS[b][1]
    if a == "-s":
        return db == "mov" and b != "-s"
    return (da == "all" and db != "all") or (da == "sib" and db in ("swap", "nobase"))


def flag_sets(tier):
    out = [()] + [(f,) for f in FLAGS]
    for a, b in itertools.combinations(FLAGS, 2):
        da, db = FLAGS[a][1], FLAGS[b][1]
        if (da, db) in CONFLICT or (db, da) in CONFLICT:
            # two flags on one option dimension: only the orders whose meaning does not depend on how "is equivalent to" is
            # read - the umbrella flag first and the specific one after it (the specific one wins), or two flags of the same
            # rank (the later one wins)
            if covers(a, b):
                out.append((a, b))
            elif covers(b, a):
                out.append((b, a))
            elif da == db and "-s" not in (a, b):
                out.append((a, b))
                out.append((b, a))
            continue
        out.append((a, b))
    return out


def outputs(tier):
    ns = (2, 5, 16) if tier == "thorough" else (5, 16)
    outs = [("p",), ("P",), ("o",), ("r",)]
    for n in ns:
        outs += [("c", n, "p"), ("c", n, "P"), ("b", n), ("b", n, "p")]
    return outs


def lib_expect(text, flags, out):
    """History for the library API under the setter calls the flags document."""
    ops = ["i"]
    # asmline applies -n/-t/-s while parsing, then mov-imm, sib, swap, no-base flags in that order
    order = sorted(flags, key=lambda f: {"all": 0, "mov": 1, "sib": 2, "swap": 3, "nobase": 4}[FLAGS[f][1]] if f not in ("-s",) else 0)
    ops += [FLAGS[f][0] for f in order]
    if out[0] == "c":
        ops.append("k%d" % out[1])
    if out[0] == "b":
        ops.append("N%d:%s" % (out[1], hexec.esc(text)))
    else:
        ops.append("A" + hexec.esc(text))
    ops.append("G")
    if out[0] == "r":
        ops.append("x")
    return "\t".join(ops)


def invoke(exe, text, flags, out, src, tmp, idx):
    args = [exe] + list(flags)
    pfile = None
    if out[0] == "c":
        args += ["-c", str(out[1])]
        rest = out[2:]
    elif out[0] == "b":
        args += ["-b", str(out[1])]
        rest = out[2:]
    else:
        rest = out
    for r in rest:
        if r == "p":
            args.append("-p")
        elif r == "P":
            pfile = os.path.join(tmp, "out%d.raw" % idx)
            with open(pfile, "wb") as f:      # an existing, longer file at the target must be replaced
                f.write(b"\xee" * 9000)
            args += ["-P", os.path.basename(pfile)]
        elif r == "o":
            # relative to the working directory: asmline -o refuses any path that contains a '.', also in a directory name
            pfile = os.path.join(tmp, "obj%d" % idx)
            args += ["-o", os.path.basename(pfile)]
            pfile += ".bin"
        elif r == "r":
            args.append("-r")
    stdin = None
    if src == "file":
        path = os.path.join(tmp, "in%d.asm" % idx)
        with open(path, "w") as f:
            f.write(text)
        args.append(path)
        stdin = subprocess.DEVNULL
    p = subprocess.run(args, input=(text.encode() if src == "stdin" else None), stdin=stdin if src == "file" else None,
                       stdout=subprocess.PIPE, stderr=subprocess.DEVNULL, timeout=20, cwd=tmp)
    data = None
    if pfile and os.path.exists(pfile):
        with open(pfile, "rb") as f:
            data = f.read()
    return p.returncode, p.stdout.decode("latin-1"), data


def hex_tokens(s):
    return "".join(re.findall(r"(?<![0-9a-f])([0-9a-f]{2})(?![0-9a-f])", s))


def digest_form(hexstr):
    """hexec reports code above 4096 bytes as '#len:fnv64'; bring a hex string into the same form."""
    from .c17 import fnv
    b = bytes.fromhex(hexstr)
    return hexstr if len(b) <= 4096 else "#%d:%016x" % (len(b), fnv(b))


def judge(out, src, stdout, rc, data, lib):
    """lib: observation list of the library run."""
    disc = set()
    a = hexec.Asm(next(o for o in lib if o[:2] in ("A:", "N:")))
    ok = a.ret == 0
    g = next((o for o in lib if o.startswith("G:")), "G:-1::1").split(":")
    code = ":".join(g[2:-1]) if ok else ""
    if (rc == 0) != ok:
        disc.add("exit-status")
    if not ok:
        return disc
    kinds = out[2:] if out[0] in "cb" else out
    if "P" in kinds or "o" in kinds:
        if data is None or digest_form(data.hex()) != code:
            disc.add("binary-file")
    if "p" in kinds:
        body = stdout
        if out[0] == "b":
            # the count line comes last: '<n> instructions break a chunk boundary of N bytes'
            body = "\n".join(l for l in stdout.split("\n") if "instructions break" not in l)
        if out[0] == "c":
            got = hex_tokens(body)
            if digest_form(got) != code:
                disc.add("print-hex")
            rows = [hex_tokens(r) for r in body.replace("\n", "").split("|")]
            rows = [r for r in rows if r]
            if any(len(r) != 2 * out[1] for r in rows[:-1]):
                disc.add("chunk-rows")
        else:
            if digest_form(hex_tokens(body)) != code:
                disc.add("print-hex")
    if out[0] == "b":
        m = re.search(r"^(\d+)", [l for l in stdout.split("\n") if l.strip()][-1]) if stdout.strip() else None
        if not m or int(m.group(1)) != a.dest:
            disc.add("break-count")
    if "r" in kinds:
        x = next((o for o in lib if o.startswith("x:")), "x:9:0").split(":")
        m = re.search(r"the value is 0x([0-9a-f]+)", stdout)
        if x[1] == "0" and (not m or int(m.group(1), 16) != int(x[2], 16)):
            disc.add("return-value")
    return disc


def run(tier, seed):
    rep = Report(PROP, tier, seed)
    exe = build.asmline()
    tmp = hexec.tmpdir()
    rep.rule = ("asmline invocations = programs (accepted and rejected, with comments/labels, with and without final newline) x "
                "mode flags (each single flag and every pair touching different option dimensions) x outputs (-p, -P f, -o f, -r, "
                "-c N -p, -c N -P f, -b N, -b N -p) x source (FILE, stdin); oracle: the same program through the library API with "
                "the setter calls each flag documents: binary files = library bytes, -p hex tokens = the same bytes (chunk rows of "
                "N bytes with -c), -b = library count, -r = rax of the code, exit status 0 iff assembly and output succeeded; plus "
                "programs of every line count 1..260 (thorough ..600) and around 512, 1024, 2048, 4096 through -P and -b from both sources; unwritable -P / -o targets. quick: every flag set x 3 outputs + every output x 3 flag sets; thorough: full product. "
                "distinct_nontrivial = distinct invocations")
    try:
        fsets = flag_sets(tier)
        outs = outputs(tier)
        progs = list(PROGRAMS.items())
        if tier == "thorough":
            combos = [(pn, pt, fs, o, s) for pn, pt in progs for fs in (fsets if pn != "big" else fsets[:4]) for o in outs
                      for s in ("file", "stdin")]
        else:
            core_out = [("p",), ("P",), ("b", 5)]
            core_fs = [(), ("-t",), ("--nasm-mov-imm", "--strict-sib")]
            combos = []
            for pn, pt in progs:
                for s in ("file", "stdin"):
                    combos += [(pn, pt, fs, o, s) for fs in fsets for o in core_out if pn in ("modes", "rejected", "ret42", "longlines")]
                    combos += [(pn, pt, fs, o, s) for fs in core_fs[:1 if pn == "big" else 3] for o in outs]
            combos = list(dict.fromkeys(combos))
        # every line count: the binary output and the break count from stdin and from FILE
        for n in line_counts(tier):
            pn = "lines-%d" % n
            for s_ in ("stdin", "file"):
                combos.append((pn, prog_text(pn), (), ("P",), s_))
                if n % 8 == 0 or n < 70:
                    combos.append((pn, prog_text(pn), (), ("b", 16), s_))
        # `ret` alone leaves rax undefined: not a program whose -r output is determined
        combos = [c for c in combos if not (c[0] == "one" and "r" in c[3])]
        libs = hexec.run([lib_expect(pt, fs, o) for pn, pt, fs, o, s in combos], dangerous=True)

        def work(i):
            pn, pt, fs, o, s = combos[i]
            try:
                return invoke(exe, pt, fs, o, s, tmp, i)
            except subprocess.TimeoutExpired:
                return ("timeout", "", None)
        with ThreadPoolExecutor(max_workers=hexec.NPROC) as ex:
            results = list(ex.map(work, range(len(combos))))
        for (pn, pt, fs, o, s), lib, (rc, stdout, data) in zip(combos, libs, results):
            rep.evaluations += 1
            rep.traces += 1
            if rc == "timeout" or hexec.is_crash(lib):
                disc = {"hang" if rc == "timeout" else "library-crash"}
            else:
                disc = judge(o, s, stdout, rc, data, lib)
            rep.outcomes.add((rc, tuple(sorted(disc))))
            if disc:
                rep.fail({"class": "invoke", "program": pn, "flags": " ".join(fs) or "-", "output": "".join(str(x) + " " for x in o).strip(),
                          "out0": o[0], "source": s, "printing": "1" if "p" in o else "0"},
                         disc, {"program": pn, "flags": list(fs), "out": list(o), "source": s},
                         "asmline %s %s (%s, program %s): %s; exit %s stdout %r" % (" ".join(fs), o, s, pn, sorted(disc), rc, stdout[:120]))
        # unwritable targets
        for o in (("P",), ("o",)):
            path = os.path.join(tmp, "no", "such", "dir", "x")
            src = os.path.join(tmp, "u.asm")
            with open(src, "w") as f:
                f.write(PROGRAMS["ret42"])
            p = subprocess.run([exe, "-" + o[0], path, src], stdout=subprocess.PIPE, stderr=subprocess.DEVNULL)
            rep.evaluations += 1
            if p.returncode == 0:
                rep.fail({"class": "unwritable", "output": o[0]}, ["exit-status"], {"program": "ret42", "flags": [], "out": ["unwritable" + o[0]], "source": "file"},
                         "asmline -%s into a missing directory exits 0" % o[0])
        rep.states = len(combos)
        rep.distinct_n = len(combos)
        rep.transitions = rep.evaluations
        rep.bounds["invocations"] = len(combos)
        rep.bounds["flag_sets"] = len(fsets)
        rep.bounds["outputs"] = len(outs)
        rep.sample({"argv": ["asmline", "--nasm-mov-imm", "--strict-sib", "-c", "5", "-p", "in.asm"], "library": lib_expect(PROGRAMS["modes"], ("--nasm-mov-imm", "--strict-sib"), ("c", 5, "p"))[:160]})
    finally:
        shutil.rmtree(tmp, ignore_errors=True)
    rep.assumptions = ["flags touching the same option dimension have no documented order and are not combined",
                       "programs used with -r end in ret and ignore their arguments"]
    return rep.finish(replay)


def replay(r, verbose=False):
    exe = build.asmline()
    tmp = hexec.tmpdir()
    try:
        o = tuple(r["out"])
        if isinstance(o[0], str) and o[0].startswith("unwritable"):
            return True
        pt = prog_text(r["program"])
        lib = hexec.run([lib_expect(pt, tuple(r["flags"]), o)], dangerous=True, nproc=1)[0]
        rc, stdout, data = invoke(exe, pt, tuple(r["flags"]), o, r["source"], tmp, 0)
        disc = judge(o, r["source"], stdout, rc, data, lib)
        if verbose:
            print("exit", rc, "stdout", repr(stdout[:300]), "\nlibrary", [x[:80] for x in lib], "\n->", sorted(disc))
        return bool(disc)
    finally:
        shutil.rmtree(tmp, ignore_errors=True)
