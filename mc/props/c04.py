"""C04 — MMX/SSE/AVX/AVX2/BMI2/ADX forms carry the right prefixes, VEX fields and registers (E1)."""
import itertools

from .. import e1, hexec, isa, shapes
from ..report import Report

PROP = "C04"


def R(n):
    return ("r", n)


def X(n):
    return ("x", n)


def Y(n):
    return ("y", n)


def MM(n):
    return ("mm", n)


def M(width, shape):
    b, i, sc, d, st = shape
    return ("m", None, width, b, i, sc, d, st)


def half(n):
    return "hi" if n >= 8 else "lo"


def at(form, width, **kw):
    a = {"form": form, "width": str(width), "class": "reg"}
    a.update(kw)
    return a


def vec_attrs(form, width, regs):
    a = at(form, width)
    for i, n in enumerate(regs):
        a["h%d" % i] = half(n)
    return a


def cases_sse():
    for mn in isa.MMXSSE_BIN + isa.SSE4_BIN + isa.SSE_REGONLY + ["pand"]:
        for a, b in itertools.product(range(16), range(16)):
            yield e1.mk(mn, (X(a), X(b)), vec_attrs("x,x", 128, (a, b)))
    for mn in isa.MMXSSE_BIN + ["pand"]:
        for a, b in itertools.product(range(8), range(8)):
            yield e1.mk(mn, (MM(a), MM(b)), vec_attrs("mm,mm", 64, (a, b)))
    for a in range(16):
        for w, mn in ((32, "movd"), (64, "movq")):
            for g in isa.GP[w]:
                yield e1.mk(mn, (X(a), R(g)), at("x,r", w, h0=half(a), rc1=isa.regclass(g)))
                yield e1.mk(mn, (R(g), X(a)), at("r,x", w, h1=half(a), rc0=isa.regclass(g)))
        for b in range(16):
            yield e1.mk("movq", (X(a), X(b)), vec_attrs("x,x", 128, (a, b)))
        for v in (0, 1, 0x7f, 0x80, 0xff):
            yield e1.mk("psrldq", (X(a), ("i", v, "hex")), at("x,i", 128, h0=half(a)), immw=8)


def cases_vex3(tier):
    for mn in isa.VEX256 + isa.VEX128_256:
        for a, b, c in itertools.product(range(16), repeat=3):
            yield e1.mk(mn, (Y(a), Y(b), Y(c)), vec_attrs("y,y,y", 256, (a, b, c)))
    for mn in isa.VEX128_256:
        for a, b, c in itertools.product(range(16), repeat=3):
            yield e1.mk(mn, (X(a), X(b), X(c)), vec_attrs("x,x,x", 128, (a, b, c)))
    for mn in isa.VEXMOV:
        for a, b in itertools.product(range(16), repeat=2):
            yield e1.mk(mn, (Y(a), Y(b)), vec_attrs("y,y", 256, (a, b)))
            yield e1.mk(mn, (X(a), X(b)), vec_attrs("x,x", 128, (a, b)))
    for mn in isa.VEXIMM:
        for a, b, c in itertools.product(range(16), repeat=3):
            for v in (0, 1, 0x31, 0xff):
                yield e1.mk(mn, (Y(a), Y(b), Y(c), ("i", v, "hex")), vec_attrs("y,y,y,i", 256, (a, b, c)), immw=8)


def cases_bmi():
    for w in (32, 64):
        G = isa.GP[w]
        for mn in isa.BMI_RMV + ["mulx"]:
            for a, b, c in itertools.product(G, repeat=3):
                yield e1.mk(mn, (R(a), R(b), R(c)), at("r,r,r", w, rc0=isa.regclass(a), rc1=isa.regclass(b),
                                                        rc2=isa.regclass(c)))
        for a, b in itertools.product(G, repeat=2):
            for v in (0, 1, 0x1f, 0x3f, 0xff):
                yield e1.mk("rorx", (R(a), R(b), ("i", v, "hex")), at("r,r,i", w, rc0=isa.regclass(a),
                                                                     rc1=isa.regclass(b)), immw=8)
            for mn in isa.ADX:
                yield e1.mk(mn, (R(a), R(b)), at("r,r", w, rc0=isa.regclass(a), rc1=isa.regclass(b)))


def mem_attrs(form, width, shape, **kw):
    a = at(form, width, **kw)
    a["class"] = "mem"
    a.update(shapes.shape_class(*shape[:4]))
    return a


def cases_mem():
    KS = shapes.key_shapes()
    regs = (0, 7, 8, 15)
    for sh in KS:
        for a in regs:
            for mn in isa.MMXSSE_BIN + isa.SSE4_BIN:
                yield e1.mk(mn, (X(a), M(128, sh)), mem_attrs("x,m", 128, sh, h0=half(a)))
            yield e1.mk("movntdqa", (X(a), M(128, sh)), mem_attrs("x,m", 128, sh, h0=half(a)))
            yield e1.mk("movd", (X(a), M(32, sh)), mem_attrs("x,m", 32, sh, h0=half(a)))
            yield e1.mk("movd", (M(32, sh), X(a)), mem_attrs("m,x", 32, sh, h1=half(a)))
            yield e1.mk("movq", (X(a), M(64, sh)), mem_attrs("x,m", 64, sh, h0=half(a)))
            yield e1.mk("movq", (M(64, sh), X(a)), mem_attrs("m,x", 64, sh, h1=half(a)))
            for mn in isa.VEXMOV:
                yield e1.mk(mn, (Y(a), M(256, sh)), mem_attrs("y,m", 256, sh, h0=half(a)))
                yield e1.mk(mn, (M(256, sh), Y(a)), mem_attrs("m,y", 256, sh, h1=half(a)))
                yield e1.mk(mn, (X(a), M(128, sh)), mem_attrs("x,m", 128, sh, h0=half(a)))
                yield e1.mk(mn, (M(128, sh), X(a)), mem_attrs("m,x", 128, sh, h1=half(a)))
            for b in (1, 9):
                for mn in isa.VEX256 + isa.VEX128_256:
                    yield e1.mk(mn, (Y(a), Y(b), M(256, sh)), mem_attrs("y,y,m", 256, sh, h0=half(a), h1=half(b)))
                for mn in isa.VEX128_256:
                    yield e1.mk(mn, (X(a), X(b), M(128, sh)), mem_attrs("x,x,m", 128, sh, h0=half(a), h1=half(b)))
                for mn in isa.VEXIMM:
                    yield e1.mk(mn, (Y(a), Y(b), M(256, sh), ("i", 0x31, "hex")),
                                mem_attrs("y,y,m,i", 256, sh, h0=half(a), h1=half(b)), immw=8)
        for a in (0, 7):
            for mn in isa.MMXSSE_BIN:
                yield e1.mk(mn, (MM(a), M(64, sh)), mem_attrs("mm,m", 64, sh))
            yield e1.mk("movntq", (M(64, sh), MM(a)), mem_attrs("m,mm", 64, sh))
        for w in (32, 64):
            G = isa.GP[w]
            for a in (G[0], G[7], G[8], G[15]):
                for c in (G[1], G[9]):
                    for mn in isa.BMI_RMV:
                        yield e1.mk(mn, (R(a), M(w, sh), R(c)), mem_attrs("r,m,r", w, sh))
                    yield e1.mk("mulx", (R(a), R(c), M(w, sh)), mem_attrs("r,r,m", w, sh))
                yield e1.mk("rorx", (R(a), M(w, sh), ("i", 5, "hex")), mem_attrs("r,m,i", w, sh), immw=8)
                for mn in isa.ADX:
                    yield e1.mk(mn, (R(a), M(w, sh)), mem_attrs("r,m", w, sh))


def replay(r, verbose=False):
    return e1.replay(r, verbose)


def run(tier, seed):
    rep = Report(PROP, tier, seed)
    cfgs = [hexec.DEFAULT_CFG] if tier == "quick" else hexec.QUICK_CFGS
    rep.rule = ("every vector / VEX / BMI2 / ADX mnemonic x every form x ALL register tuples (xmm/ymm 16^2 and 16^3, mm 8^2, "
                "xmm<->r32/r64 16x16, BMI2 r,r,r 16^3 x {32,64}) plus every memory form over the key address shapes; each "
                "assembled on a fresh instance, decoded by objdump and compared field-wise. distinct_nontrivial = distinct "
                "lines that produced code")
    blocks = [("sse/mmx reg", cases_sse), ("vex 3-operand + moves + imm", lambda: cases_vex3(tier)),
              ("bmi2/adx reg", cases_bmi), ("memory forms x key shapes", cases_mem)]
    for name, gen in blocks:
        if rep.expired():
            rep.cut_short("block %s not run (deadline)" % name)
            continue
        cases = list(gen())
        res = e1.run_block(rep, cases, cfgs, validate_tag=PROP, fit_retry=True)
        rep.bounds[name] = len(cases)
        for smp in res[:2]:
            rep.sample(smp)
    rep.bounds["configurations"] = len(cfgs)
    rep.assumptions = ["GNU objdump is the meaning of bytes", "mc/isa.py (written from the SDM) is the meaning of text"]
    return rep.finish(replay)
