"""C13 — chunk fitting pads with NOPs so that no instruction straddles a chunk boundary (E2)."""
import itertools

from .. import hexec, lengths, models
from ..decode import decode_all
from ..report import Report

PROP = "C13"


def hist(n, ops, layout="p"):
    return "c%d:%s:cc\t" % (n, layout) + "\t".join(ops)


def is_nop(mn, text):
    return mn == "nop" or text.endswith("xchg   ax,ax") or text.endswith("xchg ax,ax")


def verify(rep, jobs, L, phase, variant):
    """jobs: list of dict(start, calls=[(chunk or None, [lengths])], n).  A call with chunk None keeps the setting."""
    hs = []
    L0 = L
    for j in jobs:
        L = j.get("L") or L0          # per-job line table (the per-form sweep uses one specific line per job)
        ops = ([j["pre"]] if j.get("pre") else []) + ["o%d" % j["start"]]
        for c, ls in j["calls"]:
            if isinstance(c, str):      # 'N<c>': a counting call in between (it must not disturb the fitting setting)
                ops.append("%s:%s" % (c, hexec.esc("\n".join(L[l][0] for l in ls) + "\n")))
                continue
            if c is not None:
                ops.append("k%d" % c)
            ops.append("A" + hexec.esc("\n".join(L[l][0] for l in ls) + "\n"))
        hs.append(hist(j["n"], ops, j.get("layout", "p")))
    res = hexec.run(hs, variant=variant)
    gaps = {}
    pend = []
    for j, obs in zip(jobs, res):
        L = j.get("L") or L0
        rep.evaluations += 1
        rep.traces += 1
        rep.transitions += len(j["calls"])
        disc = set()
        san = hexec.san_of(obs)
        if san:
            disc.add("sanitizer")
        if hexec.is_crash(obs):
            disc.add("crash")
            pend.append((j, disc, [], obs))
            continue
        asm = [hexec.Asm(o) for o in obs if o[:2] in ("A:", "N:")]
        pos = j["start"]
        c = 0
        mygaps = []
        for a, (cc, ls) in zip(asm, j["calls"]):
            if isinstance(cc, str):
                ceff = 0                                     # counting calls never pad (and may straddle)
            else:
                if cc is not None:
                    c = cc
                ceff = c
            lay, end = models.fit_layout(pos, ls, ceff)
            if a.ret != 0:
                disc.add("rejected")
                break
            if a.off != end:
                disc.add("offset")
            data = a.hex
            cur = pos
            plain = ""
            for (pad, at), l in zip(lay, ls):
                if pad:
                    g = data[2 * (cur - pos):2 * (at - pos)]
                    mygaps.append(g)
                    gaps[g] = None
                ins = data[2 * (at - pos):2 * (at - pos + l)]
                if ins != L[l][1]:
                    disc.add("bytes")
                # the statement's invariant, evaluated on the output itself
                if ceff >= 2 and l < ceff and at // ceff != (at + l - 1) // ceff:
                    disc.add("straddle")
                cur = at + l
            if a.hi > max(a.off, 0) or (a.lo != -1 and a.lo < pos):
                disc.add("outside")
            if a.canary == 0:
                disc.add("canary")
            pos = a.off if a.off >= 0 else pos
        rep.outcomes.add((tuple(x.off for x in asm), tuple(len(g) // 2 for g in mygaps)))
        pend.append((j, disc, mygaps, obs))
    keys = sorted(g for g in gaps if g)
    for g, (ok, seq) in zip(keys, decode_all([bytes.fromhex(g) for g in keys])):
        gaps[g] = ok and all(is_nop(mn, text) for _, mn, text in seq)
    for j, disc, mygaps, obs in pend:
        for g in mygaps:
            if not g or not gaps.get(g):
                disc.add("padding-not-nop")
        if disc:
            lens = [l for _, ls in j["calls"] for l in ls]
            chunks = [c for c, _ in j["calls"]]
            hascount = any(isinstance(c, str) for c in chunks)
            gl = sorted({len(g) // 2 for g in mygaps})
            rep.fail({"class": phase, "chunk": str(chunks[0]), "counting": "1" if hascount else "0", "lengths": ",".join(map(str, lens)),
                      "maxgap": str(max(gl) if gl else 0), "biggap": "1" if (gl and max(gl) > 11) else "0",
                      "variant": variant},
                     disc, {"job": j, "variant": variant},
                     "chunks %s start %d lengths %s: %s (gaps %s) %s" % (chunks, j["start"], lens, sorted(disc), gl,
                                                                        (hexec.san_of(obs) or "")[:120]))


def replay(r, verbose=False):
    L = lengths.by_length()
    rep = Report(PROP, "quick", 0)
    rep.findings = []
    j = r["job"]
    j["calls"] = [(c, list(ls)) for c, ls in j["calls"]]
    if j.get("L"):
        j["L"] = {int(k): tuple(v) for k, v in j["L"].items()}
    verify(rep, [j], L, "replay", r.get("variant", "plain"))
    if verbose:
        print(j, "->", [p[3] for p in rep.pending])
    return bool(rep.pending)


def run(tier, seed):
    rep = Report(PROP, tier, seed)
    L = lengths.by_length()
    lens = sorted(L)
    rep.bounds["instruction_lengths"] = lens
    rep.rule = ("every (chunk size c, start position p < c, instruction length l) triple for c in 2..40, 64, 4096 and every "
                "length the library emits (harvested: %s); all sequences of <= 3 instructions over 7 lengths at every p for "
                "c in {2,3,4,5,8,16}; fitting switched on/off/resized between two calls; oracle = documented placement model, "
                "padding must decode (objdump) into NOP-family instructions only, output minus padding = plain bytes, and the "
                "no-straddle invariant is evaluated on the output itself; run on the ASan build. distinct_nontrivial = distinct "
                "(c, p, lengths) cases in which padding was required" % lens)
    variant = "asan"
    cs = list(range(2, 41)) + [64] + ([4096] if tier == "thorough" else [])
    jobs = []
    nontriv = 0
    for c in cs + [0, 1]:
        ps = range(max(c, 1)) if c <= 64 else list(range(0, 4)) + list(range(c - 16, c))
        for p in ps:
            for l in lens:
                jobs.append({"start": p, "calls": [(c, [l])], "n": 256 if c <= 64 else 8300})
                if models.fit_layout(p, [l], c)[0][0][0]:
                    nontriv += 1
    verify(rep, jobs, L, "triple", variant)
    rep.bounds["cpl_triples"] = len(jobs)
    rep.states += len(jobs)
    # the chunk grid belongs to the buffer (position 0 = buffer start), not to the address space: the same triples on a
    # caller buffer whose start address is not a multiple of the chunk size (250 bytes ending flush against a page end)
    jobs = []
    for c in (4, 8, 16, 32, 64):
        for p in range(c):
            for l in lens:
                jobs.append({"start": p, "calls": [(c, [l])], "n": 250, "layout": "e"})
    verify(rep, jobs, L, "triple-unaligned", variant)
    rep.bounds["cpl_triples_unaligned_buffer"] = len(jobs)
    rep.states += len(jobs)
    alpha = [l for l in (1, 2, 3, 5, 7, 10, max(lens)) if l in L]
    if not rep.expired():
        jobs = []
        for c in ((2, 3, 4, 5, 8, 16) if tier == "quick" else tuple(range(2, 21)) + (32,)):
            for p in range(c):
                for k in ((1, 2, 3) if tier == "thorough" else (2, 3)):
                    for seq in itertools.product(alpha, repeat=k):
                        if tier == "quick" and k == 3 and c in (3, 5) and p % 2:
                            continue
                        jobs.append({"start": p, "calls": [(c, list(seq))], "n": 256})
                        if any(pad for pad, _ in models.fit_layout(p, seq, c)[0]):
                            nontriv += 1
        if tier == "thorough":
            # deeper: every ordered pair over ALL harvested lengths at every (c, p), and 4-instruction sequences over the
            # 7-length alphabet for the small chunk sizes
            for c in range(2, 41):
                for p in range(c):
                    for seq in itertools.product(lens, repeat=2):
                        jobs.append({"start": p, "calls": [(c, list(seq))], "n": 256})
                        if any(pad for pad, _ in models.fit_layout(p, seq, c)[0]):
                            nontriv += 1
            for c in (2, 3, 4, 5, 8, 16):
                for p in range(c):
                    for seq in itertools.product(alpha, repeat=4):
                        jobs.append({"start": p, "calls": [(c, list(seq))], "n": 256})
                        if any(pad for pad, _ in models.fit_layout(p, seq, c)[0]):
                            nontriv += 1
        verify(rep, jobs, L, "sequence", variant)
        rep.bounds["sequences"] = len(jobs)
        rep.states += len(jobs)
    else:
        rep.cut_short("sequences not run")
    if not rep.expired():
        jobs = []
        for c1 in (0, 1, 4, 8, 16):
            for c2 in (0, 1, 4, 8, 16):
                for p in range(16):
                    for l1, l2 in itertools.product((1, 3, 5, 10), repeat=2):
                        jobs.append({"start": p, "calls": [(c1, [l1, l2]), (c2, [l2, l1])], "n": 256})
        verify(rep, jobs, L, "switch", variant)
        rep.bounds["switching_histories"] = len(jobs)
        rep.states += len(jobs)
        # the same with a counting call in between: fitting on/off must survive it unchanged
        jobs = []
        for c1 in (0, 4, 8):
            for c2 in (None, 0, 4, 8):
                for cn in (0, 4, 16):
                    for p in range(8):
                        for l1, l2 in itertools.product((1, 3, 5), repeat=2):
                            calls = [(c1, [l1, l2]), ("N%d" % cn, [l2, l1])]
                            if c2 is not None:
                                calls.append((c2, [l1]))
                                calls.append(("N%d" % cn, [l2]))
                            calls.append((None, [l2, l1, l2]))
                            jobs.append({"start": p, "calls": calls, "n": 256})
        verify(rep, jobs, L, "switch+count", variant)
        rep.bounds["switching_histories_with_counting"] = len(jobs)
        rep.states += len(jobs)
    # every instruction FORM (not only every length) at the phases that decide padding: ending exactly on a boundary (no
    # padding), crossing it by one byte, one byte of room, start of a chunk - padding decisions that look at anything but
    # the encoded length show here
    if not rep.expired():
        from . import c06, c16
        big = sorted({t for t, _ in c16.base_lines("quick")})
        # under the default options for every form; under the all-STRICT and all-NASM option sets as well for every form whose
        # bytes depend on the options (the padded instruction is encoded a second time from the same parsed line)
        cfgs = hexec.QUICK_CFGS
        keep, table = c06.singles_cfg(big, cfgs)
        jobs = []
        for t in keep:
            variants = [hexec.DEFAULT_CFG]
            if tier == "thorough":
                variants = list(cfgs)
            else:
                variants += [c for c in cfgs[1:] if table[(t, c)] != table[(t, hexec.DEFAULT_CFG)]]
            for cfg in variants:
                hx = table[(t, cfg)]
                l = len(hx) // 2
                Lj = {l: (t, hx)}
                for c in (8, 16, 32):
                    if l >= c:
                        continue
                    for p in sorted({c - l, c - l + 1, c - 1, 0, 2 * c - l}):
                        jobs.append({"start": p, "calls": [(c, [l])], "n": 256, "L": Lj, "line": t,
                                     "pre": None if cfg == hexec.DEFAULT_CFG else hexec.cfg_ops(cfg)})
                        if models.fit_layout(p, [l], c)[0][0][0]:
                            nontriv += 1
        verify(rep, jobs, L, "per-form", variant)
        rep.bounds["per_form_boundary_cases"] = len(jobs)
        rep.states += len(jobs)
    rep.distinct_n = nontriv
    rep.sample({"history": hist(256, ["o3", "k8", "A" + hexec.esc(L[7][0] + "\n" + L[3][0] + "\n")]),
                "model": models.fit_layout(3, [7, 3], 8)})
    rep.sample({"chunk": 16, "start": 9, "lengths": [10], "model": models.fit_layout(9, [10], 16)})
    rep.assumptions = ["GNU objdump decides what a NOP instruction is", "reserve of 20 bytes is respected by the harness buffers"]
    return rep.finish(replay)
