"""C01 — integer instructions on registers encode exactly the instruction written (E1)."""
import itertools

from .. import e1, hexec, isa
from ..decode import R8H, REGW
from ..report import Report

PROP = "C01"


def R(n):
    return ("r", n)


def regs8():
    return isa.GP[8] + R8H


def attrs(form, width, names):
    a = {"form": form, "width": str(width), "class": "reg"}
    for i, n in enumerate(names):
        a["rc%d" % i] = isa.regclass(n)
    a["same"] = "1" if len(names) >= 2 and isa.REGN[names[0]] == isa.REGN[names[1]] else "0"
    return a


def gen_two(mn, widths, flags=(), force_rex_w=False):
    for w in widths:
        pool = regs8() if w == 8 else isa.GP[w]
        for a, b in itertools.product(pool, pool):
            if not isa.tuple_encodable((a, b), force_rex=(w == 64)):
                continue
            yield e1.mk(mn, (R(a), R(b)), attrs("r,r", w, (a, b)), flags)


def gen_one(mn, widths, form="r"):
    for w in widths:
        pool = regs8() if w == 8 else isa.GP[w]
        for a in pool:
            yield e1.mk(mn, (R(a),), attrs(form, w, (a,)))


def cases_alu():
    for mn in isa.ALU2 + ["mov"]:
        yield from gen_two(mn, (8, 16, 32, 64))
    yield from gen_two("test", (8, 16, 32, 64), flags=("commute",))
    yield from gen_two("xchg", (8, 16, 32, 64), flags=("commute",))
    yield from gen_two("imul", (16, 32, 64))


def cases_unary():
    for mn in isa.UNARY + ["imul"]:
        yield from gen_one(mn, (8, 16, 32, 64))
    for mn in ("push", "pop"):
        yield from gen_one(mn, (16, 64))
    for mn in isa.SHIFTS:
        for w in (8, 16, 32, 64):
            pool = regs8() if w == 8 else isa.GP[w]
            for a in pool:
                yield e1.mk(mn, (R(a), R("cl")), attrs("r,cl", w, (a,)))
    for w in (16, 32, 64):
        for a, b in itertools.product(isa.GP[w], isa.GP[w]):
            yield e1.mk("shld", (R(a), R(b), R("cl")), attrs("r,r,cl", w, (a, b)))


def cases_cc():
    for cc in isa.CCS:
        for w in (16, 32, 64):
            for a, b in itertools.product(isa.GP[w], isa.GP[w]):
                yield e1.mk("cmov" + cc, (R(a), R(b)), attrs("r,r", w, (a, b)))
        for a in regs8():
            yield e1.mk("set" + cc, (R(a),), attrs("r", 8, (a,)))


def cases_movzx():
    for wd in (16, 32, 64):
        for a in isa.GP[wd]:
            for b in regs8():
                if isa.tuple_encodable((a, b), force_rex=(wd == 64)):
                    yield e1.mk("movzx", (R(a), R(b)), attrs("r,r8", wd, (a, b)))
    for wd in (32, 64):
        for a, b in itertools.product(isa.GP[wd], isa.GP[16]):
            yield e1.mk("movzx", (R(a), R(b)), attrs("r,r16", wd, (a, b)))


def cases_noop():
    for mn in isa.NOOPS:
        yield e1.mk(mn, (), {"form": "", "width": "", "class": "noop"})
    yield e1.mk("nop", (), {"form": "", "width": "", "class": "noop"}, flags=(("nop", 1),))
    for n in range(2, 12):
        # library dialect (nasm has no nopN); expectation by hand: one NOP-family instruction of n bytes
        yield e1.mk("nop%d" % n, (), {"form": "", "width": "", "class": "nop", "hand": True}, flags=(("nop", n),))


BLOCKS = [("alu/mov/test/xchg/imul r,r", cases_alu), ("unary/push/pop/shift-cl/shld-cl", cases_unary),
          ("cmovcc/setcc", cases_cc), ("movzx", cases_movzx), ("no-operand/nopN", cases_noop)]


def replay(r, verbose=False):
    return e1.replay(r, verbose)


def run(tier, seed):
    rep = Report(PROP, tier, seed)
    cfgs = hexec.QUICK_CFGS if tier == "quick" else hexec.CONFIGS
    rep.rule = ("every supported general-purpose mnemonic x every register-only form x EVERY register tuple of every "
                "width (16 names per width + ah/ch/dh/bh, minus tuples x86-64 cannot encode), each assembled on a fresh "
                "instance per option configuration, decoded by objdump and compared field-wise (operation, registers, "
                "operand size, length = offset advance, nothing written beyond). distinct_nontrivial = distinct lines "
                "that produced code")
    for name, gen in BLOCKS:
        if rep.expired():
            rep.cut_short("block %s not run (deadline)" % name)
            continue
        cases = list(gen())
        res = e1.run_block(rep, cases, cfgs, validate_tag=PROP, fit_retry=True)
        rep.bounds[name] = len(cases)
        for smp in res[:2]:
            rep.sample(smp)
    rep.bounds["configurations"] = len(cfgs)
    rep.assumptions = ["GNU objdump is the meaning of bytes", "mc/isa.py (written from the SDM) is the meaning of text"]
    return rep.finish(replay)
