"""C09 — arbitrary input text never causes memory errors, crashes or hangs (E3, sanitizers as monitor)."""
import os
import re
import subprocess
from concurrent.futures import ThreadPoolExecutor

from .. import build, hexec
from ..report import Report

PROP = "C09"
NSH = 16


def run_enum(exe, mode, bound, env):
    """Runs all shards of one enumeration in parallel.  -> (executions, inputs, fails list, complete)"""
    def one(sh):
        p = subprocess.run([exe, mode, str(bound), str(sh), str(NSH)], stdout=subprocess.PIPE, stderr=subprocess.DEVNULL, env=env)
        return p.stdout.decode("latin-1")
    with ThreadPoolExecutor(max_workers=NSH) as ex:
        outs = list(ex.map(one, range(NSH)))
    execs = inputs = 0
    fails = []
    complete = True
    for o in outs:
        done = False
        for ln in o.split("\n"):
            if ln.startswith("FAIL "):
                _, idx, setting, sig, rest = ln.split(" ", 4)
                text, _, summ = rest.partition("|")
                fails.append((int(idx), int(setting), int(sig), text, summ))
            elif ln.startswith("DONE "):
                f = ln.split()
                execs += int(f[1])
                inputs += int(f[2])
                complete = complete and f[4] == "complete"
                done = True
        if not done:
            complete = False
    return execs, inputs, fails, complete


def site_of(summ):
    """Normalised call site: sanitizer error kind + function / source line, robust against line shifts."""
    m = re.search(r"(/repo/src/\w+\.c):(\d+)(?::\d+)?: runtime error: (.*)", summ)
    if m:
        kind = re.sub(r"-?\d+", "N", m.group(3))[:60]
        return "%s %s" % (os.path.basename(m.group(1)), kind)
    m = re.search(r"AddressSanitizer: (\S+) (/repo/src/\w+\.c):\d+ in (\w+)", summ)
    if m:
        return "%s %s %s" % (m.group(1), os.path.basename(m.group(2)), m.group(3))
    m = re.search(r"MemorySanitizer: (\S+) (/repo/src/\w+\.c):\d+(?::\d+)? in (\w+)", summ)
    if m:
        return "msan %s %s %s" % (m.group(1), os.path.basename(m.group(2)), m.group(3))
    return summ[:80] or "no sanitizer report"


def length_cases():
    """Every length around each fixed-size array of the parser (part 5 of the design)."""
    out = []
    for n in list(range(90, 111)) + list(range(195, 206)):
        out.append(("line%d" % n, "mov rax, 0x" + "1" * (n - 11)))            # n non-blank characters in total
        out.append(("line%d-regs" % n, "mov rax, r" + "a" * (n - 9)))
        out.append(("line%d-comma" % n, "add " + ",".join(["rax"] * (n // 4))[: n - 4]))
        out.append(("line%d-brk" % n, "mov rax, [" + "rax+" * ((n - 12) // 4) + "rax]"))
        out.append(("line%d-blank" % n, "mov rax, 0x" + "1" * (n - 11) + "   \t "))
        # a one-character last operand at the very end of a line of n significant characters
        out.append(("line%d-imm1" % n, "mov [rax+0x" + "0" * (n - 14) + "1],5"))
        out.append(("line%d-reg1" % n, "add [rbx+0x" + "0" * (n - 14) + "1],a"))
        out.append(("line%d-end-comma" % n, "mov rax, 0x" + "1" * (n - 11) + ","))
        out.append(("line%d-end-bracket" % n, "mov rax,[" + "r" * (n - 10) + "]"))
        out.append(("line%d-end-open" % n, "mov rax, 0x" + "1" * (n - 12) + ",["))
    for n in range(10, 21):
        out.append(("mnemonic%d" % n, "v" * n + " rax, rbx"))
        out.append(("mnemonic%d-alone" % n, "n" * n))
    for n in range(1, 13):
        out.append(("reg%d" % n, "mov r" + "a" * n + ", rbx"))
        out.append(("reg%d-second" % n, "mov rbx, r" + "1" * n))
        out.append(("reg%d-mem" % n, "mov rbx, [r" + "a" * n + "]"))
        out.append(("reg%d-index" % n, "mov rbx, [rax+r" + "c" * n + "*2]"))
        out.append(("reg%d-xmm" % n, "paddb xmm" + "1" * n + ", xmm2"))
    for n in range(1, 41):
        out.append(("imm%d" % n, "mov rax, 0x" + "f" * n))
        out.append(("immdec%d" % n, "mov rax, " + "9" * n))
        out.append(("disp%d" % n, "mov rax, [rbx+0x" + "f" * n + "]"))
        out.append(("dispneg%d" % n, "mov rax, [rbx-" + "9" * n + "]"))
        out.append(("const%d" % n, "mov rax, [0x" + "f" * n + "]"))
        out.append(("jmp%d" % n, "jmp 0x" + "f" * n))
    for n in (1, 2, 3, 10, 50, 100, 299, 300):
        out.append(("lines%d" % n, "nop\n" * n))
        out.append(("lines%d-crlf" % n, "add rax, rbx\r\n" * n))
        out.append(("blank%d" % n, "\n" * n))
        out.append(("longcomment%d" % n, "nop ; " + "c" * (n * 3) + "\nret"))
        out.append(("spaces%d" % n, " " * (n * 3) + "nop"))
    return out


def run(tier, seed):
    rep = Report(PROP, tier, seed)
    rep.rule = ("exhaustive string enumerations executed in-process on an ASan+UBSan (abort mode) build, every input under 7 "
                "settings ({plain, fitting c=4, counting c=4} x {default, all-STRICT}, and fitting c=32 at the last legal offset of a "
                "41-byte heap buffer): (1) all byte strings of length <= 2 over "
                "1..255 and of length 3 over 64 symbols, (2) all strings of length <= 5/6 over an 18-symbol structural alphabet, "
                "(3) all token sequences of depth <= 4/5 over 31 tokens, (4) mnemonic x 0..2/3 operands from a 40-entry menu incl. "
                "malformed operands and 4..6 operands from a 10-entry menu, (5) every length around each fixed-size parser array "
                "(line 90..110 / 195..205, mnemonic 10..20, register 1..12, 1..40 digits, 1..300 lines) on the recover-mode build; "
                "a second pass of (2)-(4) at a smaller bound on a clang MemorySanitizer build; a worker child is restarted behind "
                "every input that aborts, faults or hangs (20 s watchdog). distinct_nontrivial = distinct input strings executed")
    env = dict(os.environ)
    tmp = hexec.tmpdir()
    env["HEXEC_TMP"] = tmp
    env["ASAN_OPTIONS"] = "detect_leaks=0:abort_on_error=1:allocator_may_return_null=1"
    env["UBSAN_OPTIONS"] = "print_stacktrace=0"
    env["MSAN_OPTIONS"] = "exit_code=77"
    try:
        exe = build.c09_enum("asanabort")
        plan = [("bytes", 0), ("struct", 5 if tier == "quick" else 6), ("tokens", 4 if tier == "quick" else 5),
                ("lines", 2 if tier == "quick" else 4)]
        passes = [("asan+ubsan", exe, plan)]
        try:
            mexe = build.c09_enum("msan")
            passes.append(("msan", mexe, [("struct", 4 if tier == "quick" else 5), ("tokens", 3 if tier == "quick" else 4),
                                          ("lines", 1 if tier == "quick" else 2)]))
        except SystemExit:
            rep.extra["msan"] = "clang MemorySanitizer build failed on this tree; pass skipped"
        for pname, pexe, pplan in passes:
            for mode, bound in pplan:
                if rep.expired():
                    rep.cut_short("%s %s %d not run" % (pname, mode, bound))
                    continue
                execs, inputs, fails, complete = run_enum(pexe, mode, bound, env)
                rep.evaluations += execs
                rep.traces += execs
                rep.distinct_n += inputs
                rep.states += inputs
                rep.bounds["%s %s" % (pname, mode)] = {"bound": bound, "inputs": inputs, "executions": execs, "complete": complete}
                if not complete:
                    rep.cut_short("%s %s %d stopped at the failure cap" % (pname, mode, bound))
                rep.outcomes.add((pname, mode, len(fails)))
                for idx, setting, sig, text, summ in fails:
                    site = site_of(summ)
                    kind = "hang" if sig == 14 else ("bad-return" if sig == 1008 else ("sanitizer" if summ else "crash"))
                    rep.fail({"class": mode, "pass": pname, "site": site, "setting": str(setting)}, [kind],
                             {"kind": "enum", "pass": pname, "mode": mode, "bound": bound, "index": idx, "text": text},
                             "%s input #%d %r setting %d: signal/exit %d %s" % (mode, idx, text, setting, sig, summ[:200]))
        # (5) lengths around fixed arrays: recover-mode build through hexec, three settings each
        lc = length_cases()
        hs = []
        meta = []
        for name, text in lc:
            for setting, pre in (("plain", ""), ("fit4", "k4\t"), ("strict", "a0\t")):
                hs.append("c8192:p:cc\t%sA%s" % (pre, hexec.esc(text)))
                meta.append((name, text, setting))
            hs.append("c8192:p:cc\tN4:%s" % hexec.esc(text))
            meta.append((name, text, "count4"))
        res = hexec.run(hs, variant="asan", timeout=20)
        for (name, text, setting), obs in zip(meta, res):
            rep.evaluations += 1
            rep.traces += 1
            san = hexec.san_of(obs)
            disc = set()
            if hexec.is_crash(obs):
                disc.add("hang" if obs[-1].startswith("CRASH:14") else "crash")
                san = obs[-1]
            elif san:
                disc.add("sanitizer")
            rep.outcomes.add(("len", bool(disc)))
            if disc:
                rep.fail({"class": "lengths", "pass": "asan+ubsan", "site": site_of(san or ""), "case": re.sub(r"\d+", "N", name),
                          "setting": setting}, disc, {"kind": "len", "text": text, "setting": setting},
                         "%s (%d chars) [%s]: %s" % (name, len(text), setting, (san or "")[:200]))
        rep.states += len(lc)
        rep.distinct_n += len(lc)
        rep.bounds["length_cases"] = len(lc)
        # (6) "arbitrary text" includes every well-formed line: the whole per-form corpus and every address shape of the C02
        # grid (under one instruction per operand position), on the sanitizer build, in plain, fitting and counting mode
        if not rep.expired():
            from . import c16
            from .. import isa, shapes
            texts = sorted({t for t, _ in c16.base_lines("quick")})
            for sh in shapes.grid("quick"):
                b, i, sc, d, st = sh
                m = isa.mem_text(None, b, i, sc, d, st)
                texts += ["lea rax, " + m, "vpaddd ymm1, ymm2, " + m, "inc dword " + m]
            hs, meta = [], []
            for t in texts:
                for setting, pre in (("plain", ""), ("strict+fit8", "a0\tk8\t")):
                    hs.append("c64:p:cc\t%sA%s" % (pre, hexec.esc_fast(t + "\n")))
                    meta.append((t, setting))
            # in slices, so that a tree on which many of these lines crash or hang (each costs a worker restart or a time-out)
            # is reported after the first slice with failures instead of after hours
            nfail = 0
            done = 0
            STEP = 4000
            for k in range(0, len(hs), STEP):
                if nfail >= 20 or rep.expired():
                    rep.cut_short("well-formed lines: stopped after %d of %d histories (%d failures so far)" % (done, len(hs), nfail))
                    break
                res = hexec.run(hs[k:k + STEP], variant="asan", timeout=3)
                for (t, setting), obs in zip(meta[k:k + STEP], res):
                    rep.evaluations += 1
                    rep.traces += 1
                    done += 1
                    san = hexec.san_of(obs)
                    disc = set()
                    if hexec.is_crash(obs):
                        disc.add("hang" if obs[-1].startswith("CRASH:14") else "crash")
                        san = obs[-1]
                    elif san:
                        disc.add("sanitizer")
                    if disc:
                        nfail += 1
                        rep.fail({"class": "corpus", "pass": "asan+ubsan", "site": site_of(san or ""), "mnemonic": t.split()[0], "setting": setting},
                                 disc, {"kind": "len", "text": t + "\n", "setting": "plain" if setting == "plain" else "strict"},
                                 "well-formed line %r [%s]: %s" % (t, setting, (san or "")[:200]))
            rep.bounds["well_formed_lines"] = len(texts)
            rep.states += len(texts)
            rep.distinct_n += len(texts)
        rep.transitions = rep.evaluations
        rep.sample({"mode": "struct", "example_inputs": ["a[", "r0,*", " ;x\n1"]})
        rep.sample({"mode": "lines", "example_inputs": ["mov [rax+], 0x", "vperm2i128 rax, xmm1, ymm2, [rax], 1"]})
        rep.sample({"mode": "lengths", "example": lc[3][1][:60] + "..."})
    finally:
        import shutil
        shutil.rmtree(tmp, ignore_errors=True)
    rep.assumptions = ["gcc ASan/UBSan and clang MSan see what they instrument (an overflow inside a struct is UBSan's bounds check)",
                       "sanitizer builds use -O1; the file entry points share the parser and are covered by C19"]
    return rep.finish(replay)


def replay(r, verbose=False):
    if r["kind"] == "len":
        pre = {"plain": "", "fit4": "k4\t", "strict": "a0\t"}.get(r["setting"])
        h = ("c8192:p:cc\tN4:%s" % hexec.esc(r["text"])) if pre is None else ("c8192:p:cc\t%sA%s" % (pre, hexec.esc(r["text"])))
        obs = hexec.run([h], variant="asan", nproc=1, timeout=5)[0]
        if verbose:
            print(obs)
        return hexec.is_crash(obs) or bool(hexec.san_of(obs))
    # enumerated input: run its text alone on the recover-mode build under all settings
    text = r["text"].encode("latin-1").decode("unicode_escape").encode("latin-1")
    hs = []
    for pre in ("", "k4\t", "a0\t", "a0\tk4\t"):
        hs.append("c8192:p:cc\t%sA%s" % (pre, hexec.esc(text)))
    hs.append("c8192:p:cc\tN4:%s" % hexec.esc(text))
    hs.append("c8192:p:cc\ta0\tN4:%s" % hexec.esc(text))
    # the seventh setting: 41-byte buffer ending flush against a PROT_NONE page, chunk 32, offset 21
    hs.append("c41:e:cc\tk32\to21\tA%s" % hexec.esc(text))
    res = hexec.run(hs, variant="asan", nproc=1, timeout=25, dangerous=True)
    if verbose:
        print(res)
    return any(hexec.is_crash(o) or hexec.san_of(o) or any(x[:2] == "A:" and x.endswith(":0") for x in o) for o in res)
