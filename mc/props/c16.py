"""C16 — letter case, spacing, comments, labels and number base do not change the code (E1, relational)."""
import itertools
import re

from .. import hexec, shapes
from ..decode import REGW
from ..report import Report
from . import c01, c02, c03, c04, c05

PROP = "C16"
_word = re.compile(r"\b[a-z][a-z0-9]*\b")
_hexnum = re.compile(r"0x[0-9a-f]+")
_num = re.compile(r"(?<![a-zA-Z0-9*])(0x[0-9a-f]+|[0-9]+)(?![a-zA-Z0-9*])")


def sw_mn_upper(t):
    a, _, b = t.partition(" ")
    return a.upper() + (" " + b if b else "")


def sw_regs_upper(t):
    a, _, b = t.partition(" ")
    return a + (" " + _word.sub(lambda m: m.group(0).upper(), b) if b else "")


def sw_hex_upper(t):
    return _hexnum.sub(lambda m: "0X" + m.group(0)[2:].upper(), t)


def sw_comma_sp(t):
    return t.replace(", ", "  ,   ")


def sw_comma_tight(t):
    return t.replace(", ", ",")


def sw_bracket_sp(t):
    def f(m):
        s = m.group(0)
        s = s.replace("+", " + ").replace("-", " - ").replace("*", " * ")
        return "[ " + s[1:-1] + " ]"
    return re.sub(r"\[[^\]]*\]", f, t)


def sw_indent(t):
    return "    " + t


def sw_indent_tab(t):
    return "\t " + t


def sw_trail(t):
    return t + "  \t "


def sw_comment(t):
    return t + " ; trailing comment, rax [1] 0x10"


def _conv(m, to):
    s = m.group(1)
    v = int(s, 0) if s.startswith("0x") else int(s, 10)
    return ("0x%x" % v) if to == "hex" else ("%d" % v)


def sw_to_dec(t):
    a, _, b = t.partition(" ")
    return a + (" " + _num.sub(lambda m: _conv(m, "dec"), b) if b else "")


def sw_to_hex(t):
    a, _, b = t.partition(" ")
    return a + (" " + _num.sub(lambda m: _conv(m, "hex"), b) if b else "")


def sw_lead_zero(t):
    a, _, b = t.partition(" ")

    def f(m):
        s = m.group(1)
        return "0x00" + s[2:] if s.startswith("0x") else "00" + s
    return a + (" " + _num.sub(f, b) if b else "")


# canonical application order: number rewritings first (they look at lower-case text), then case, spacing, comment last
SWITCHES = [("to-dec", sw_to_dec), ("lead-zero", sw_lead_zero), ("hex-upper", sw_hex_upper), ("regs-upper", sw_regs_upper),
            ("mn-upper", sw_mn_upper), ("comma-spaced", sw_comma_sp), ("bracket-spaced", sw_bracket_sp), ("indent", sw_indent),
            ("trailing-blanks", sw_trail), ("comment", sw_comment)]
def sw_pad16(t):
    """Every constant written as 0x followed by exactly 16 hex digits (the spelling that matters to SMART mov-immediate mode
    must not matter anywhere else)."""
    a, _, b = t.partition(" ")

    def f(m):
        s = m.group(1)
        v = int(s, 0) if s.startswith("0x") else int(s, 10)
        return "0x%016x" % v
    return a + (" " + _num.sub(f, b) if b else "")


def sw_indent_wide(t):
    return " " * 150 + t


def sw_comma_wide(t):
    return t.replace(", ", "," + " " * 120)


def sw_trail_wide(t):
    return t + " " * 200 + "\t" * 20


def sw_comment_long(t):
    return t + " ;" + " long comment" * 40


def sw_bracket_wide(t):
    return re.sub(r"\[([^\]]*)\]", lambda m: "[" + " " * 60 + m.group(1) + " " * 60 + "]", t)


EXTRA = [("comma-tight", sw_comma_tight), ("indent-tab", sw_indent_tab), ("to-hex", sw_to_hex), ("pad16", sw_pad16), ("indent-150", sw_indent_wide),
         ("comma-120-blanks", sw_comma_wide), ("trailing-220-blanks", sw_trail_wide), ("comment-500-chars", sw_comment_long),
         ("bracket-120-blanks", sw_bracket_wide)]
WRAPS = {"crlf": lambda t: t + "\r\n", "blank-before": lambda t: "\n" + t + "\n", "comment-line-before": lambda t: "; hello\n" + t + "\n",
         "label-before": lambda t: "start:\n" + t + "\n", "section-before": lambda t: "section .text\n" + t + "\n",
         "global-before": lambda t: "global f\n" + t + "\n", "blank-after": lambda t: t + "\n\n",
         "label-after": lambda t: t + "\nend:\n", "comment-after": lambda t: t + "\n;bye\n", "no-newline": lambda t: t}


COMMENTS = ["", " x:", ":", " note: done", " section .text", " global f", "section", " [rax]", " mov rax, 1", "; again", " %define x", " 0x10",
            "\t", " ends with comma,", " label:  ", " \"quoted\"", " -", " the following:\t", " a ; b : c", " :start"]


def base_lines(tier):
    seen = {}
    gens = [g() for _, g in c01.BLOCKS] + [c03.cases_alu("quick", 0), c03.cases_shift("quick", 0), c03.cases_imul_push("quick", 0),
                                            c04.cases_sse(), c04.cases_bmi(), c04.cases_mem(), c05.cases_rel("quick", 0),
                                            c05.cases_indirect(),
                                            (c for sh in shapes.key_shapes() for c in c02.reps(sh, full=False))]
    for g in gens:
        for c in g:
            a = c.attrs
            if tier == "thorough":
                key = (a.get("mnemonic"), a.get("form"), a.get("width"), a.get("path"), a.get("kw"), a.get("base"), a.get("index"),
                       a.get("scale"), a.get("dclass"), a.get("dsign"), a.get("sfit"), a.get("ufit"), a.get("spelling"), a.get("dk"))
            else:
                key = (a.get("mnemonic"), a.get("form"), a.get("width"),
                       a.get("path"), a.get("kw"), (a.get("base") or "")[:2],
                       ("sp" if str(a.get("index", "none")).startswith("sp") else "i") if a.get("index", "none") != "none" else "",
                       a.get("dsign"), a.get("ufit"), a.get("sfit"), a.get("spelling"), a.get("one"), a.get("dk"))
            if key not in seen:
                seen[key] = c
    out = []
    for c in seen.values():
        movimm = (c.op == "mov" and len(c.ops) == 2 and c.ops[0][0] == "r" and REGW.get(c.ops[0][1]) == 64 and c.ops[1][0] == "i")
        out.append((c.text, movimm))
    return out


CF_ALL = [hexec.DEFAULT_CFG, ("STRICT", "STRICT", "STRICT"), ("NASM", "NASM", "NASM")]
CF_MOV = CF_ALL[1:]    # SMART: spelling decides narrowing of mov r64, imm as documented (C11)


def run_variants(rep, lines, variants_of, phase):
    """lines: [(text, movimm)]; variants_of(text) -> [(name, program text)].  Byte equality with the base spelling."""
    hs = []
    meta = []
    for text, movimm in lines:
        cfgs = CF_MOV if movimm else CF_ALL
        vs = [("base", text + "\n")] + variants_of(text)
        for cfg in cfgs:
            for name, prog in vs:
                hs.append("c128:p:cc\t%s\tA%s" % (hexec.cfg_ops(cfg), hexec.esc(prog)))
                meta.append((text, cfg, name, prog))
    res = hexec.run(hs)
    base = None
    for (text, cfg, name, prog), obs in zip(meta, res):
        rep.evaluations += 1
        rep.traces += 1
        if hexec.is_crash(obs):
            got = ("crash", -1, "")
        else:
            a = hexec.Asm(obs[-1])
            got = (a.ret, a.off, a.hex[:2 * a.off] if a.ret == 0 and a.off >= 0 else "")
        if name == "base":
            base = got
            if got[0] == 0:
                rep.distinct_n += 1
            continue
        if base[0] != 0:
            continue    # base spelling does not assemble: not in the corpus
        rep.outcomes.add((name, got == base))
        if got != base:
            disc = ["crash"] if got[0] == "crash" else (["rejected"] if got[0] != 0 else ["bytes"])
            rep.fail({"class": phase, "rewriting": name, "mnemonic": text.split()[0], "cfg": "/".join(cfg),
                      "hasmem": "1" if "[" in text else "0", "hasnum": "1" if _num.search(text.partition(" ")[2]) else "0",
                      "memnum": "1" if re.search(r"\[[^\]]*[0-9]", text) else "0",
                      "firstch": text.partition(" ")[2][:1] or "-"},
                     disc, {"text": text, "prog": prog, "cfg": list(cfg)},
                     "%r rewritten (%s) as %r [%s]: %s, base spelling %s" % (text, name, prog, "/".join(cfg), got, base))
    rep.states += len(lines)


def replay(r, verbose=False):
    cfg = tuple(r["cfg"])
    res = hexec.run(["c128:p:cc\t%s\tA%s" % (hexec.cfg_ops(cfg), hexec.esc(p)) for p in (r["text"] + "\n", r["prog"])], nproc=1)
    out = []
    for o in res:
        if hexec.is_crash(o):
            out.append("crash")
        else:
            a = hexec.Asm(o[-1])
            out.append((a.ret, a.off, a.hex[:2 * max(a.off, 0)]))
    if verbose:
        print(repr(r["text"]), "->", out[0], "\n", repr(r["prog"]), "->", out[1])
    return out[0] != out[1]


def apply(text, names):
    t = text
    for n, f in [EXTRA[2]] + SWITCHES + EXTRA[:2]:
        if n in names:
            t = f(t)
    return t


def run(tier, seed):
    rep = Report(PROP, tier, seed)
    lines = base_lines(tier)
    rep.bounds["base_lines"] = len(lines)
    rep.rule = ("base lines = one line per (mnemonic, form, operand-class pattern) of the C01-C05 corpora that assembles; "
                "rewritings: upper-case mnemonic / registers+keywords / hex digits and 0X, blanks around commas, blanks inside "
                "brackets, indentation (spaces, tab), trailing blanks, trailing ; comment (and 20 comment contents made of characters that mean something outside a comment), decimal<->hex, leading zeros, CRLF, and "
                "blank / comment / label / section / global lines before and after; quick: each alone, all pairs, all together; "
                "thorough: all 2^10 combinations; oracle: return value, offset and bytes equal those of the base spelling under "
                "the same options (mov r64, imm lines only in NASM and STRICT mov-immediate modes). distinct_nontrivial = base "
                "lines that assemble")
    names = [n for n, _ in SWITCHES]

    def singles(text):
        vs = [(n, f(text) + "\n") for n, f in SWITCHES + EXTRA]
        vs += [(n, w(text)) for n, w in WRAPS.items()]
        vs.append(("all-together", apply(text, set(names)) + "\r\n"))
        return [(n, p) for n, p in vs if p.rstrip("\r\n") != text or n in WRAPS]

    run_variants(rep, lines, singles, "single")
    rep.bounds["single_rewritings"] = len(SWITCHES) + len(EXTRA) + len(WRAPS) + 1

    # what a comment may contain: the characters and words that mean something OUTSIDE a comment (label colon, directive
    # names, brackets, a second semicolon, macro sign, an instruction, a trailing comma), at the start, in the middle and
    # at the very end of the comment, after LF and CRLF
    def commentv(text):
        out = []
        for k, c in enumerate(COMMENTS):
            out.append(("comment-content:%d" % k, text + " ;" + c + "\n"))
            out.append(("comment-content-tight:%d" % k, text + ";" + c + "\r\n"))
        return out
    if not rep.expired():
        run_variants(rep, lines if tier == "thorough" else lines[::4], commentv, "comment-content")
        rep.bounds["comment_contents"] = len(COMMENTS)
    pairs = list(itertools.combinations(names, 2))

    def pairv(text):
        out = []
        for a, b in pairs:
            p = apply(text, {a, b})
            if p != text:
                out.append((a + "+" + b, p + "\n"))
        return out
    if not rep.expired():
        run_variants(rep, lines, pairv, "pairs")
        rep.bounds["pair_rewritings"] = len(pairs)
    if tier == "thorough" and not rep.expired():
        sub = lines[:: max(1, len(lines) // 700)]

        def allv(text):
            out = []
            for k in range(3, len(names) + 1):
                for combo in itertools.combinations(names, k):
                    out.append(("+".join(combo), apply(text, set(combo)) + "\n"))
            return out
        for k in range(0, len(sub), 100):
            if rep.expired():
                rep.cut_short("all-combinations phase cut at line %d of %d" % (k, len(sub)))
                break
            run_variants(rep, sub[k:k + 100], allv, "all-combinations")
        rep.bounds["all_2^10_combinations_lines"] = len(sub)
        # 3-line programs with a non-code line at every insertion position
        progs = [[a[0], b[0], c[0]] for a, b, c in zip(lines[::7], lines[3::7], lines[5::7])][:400]
        hs = []
        meta = []
        for pr in progs:
            basep = "\n".join(pr) + "\n"
            vs = [("base", basep)]
            for pos in range(4):
                for nl in ("", "; c", "lbl:", "section .data", "global g", "  \t"):
                    q = pr[:pos] + [nl] + pr[pos:]
                    vs.append(("insert@%d:%s" % (pos, nl.strip() or "blank"), "\n".join(q) + "\n"))
            for name, prog in vs:
                hs.append("c128:p:cc\tm1\tw1\tb1\tA%s" % hexec.esc(prog))
                meta.append((pr, name, prog))
        res = hexec.run(hs)
        base = None
        for (pr, name, prog), obs in zip(meta, res):
            rep.evaluations += 1
            a = None if hexec.is_crash(obs) else hexec.Asm(obs[-1])
            got = ("crash",) if a is None else (a.ret, a.off, a.hex[:2 * max(a.off, 0)] if a.ret == 0 else "")
            if name == "base":
                base = got
                continue
            if base[0] == 0 and got != base:
                rep.fail({"class": "program-insert", "rewriting": name.split(":")[1]}, ["bytes"],
                         {"text": "\n".join(pr), "prog": prog, "cfg": ["NASM", "NASM", "NASM"]},
                         "program %r with %s: %s vs %s" % (pr, name, got, base))
        rep.bounds["three_line_programs"] = len(progs)
    rep.transitions = rep.evaluations
    rep.sample({"base": lines[len(lines) // 2][0], "all-together": apply(lines[len(lines) // 2][0], set(names))})
    rep.sample({"base": lines[7][0], "variants": [p for _, p in singles(lines[7][0])][:6]})
    rep.assumptions = ["tabs are only added next to an existing separator", "the scale factor of a memory operand is not a 'constant' for the "
                       "decimal/hex rewriting"]
    return rep.finish(replay)
