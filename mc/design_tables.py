"""Regenerates the measured tables of DESIGN.md section 0 (0.2 sizes, 0.5 fix commits, 0.7 seeds): python3 -m mc.design_tables"""
import glob
import json
import os
import re
import subprocess

from .build import VERIF


def main():
    p = os.path.join(VERIF, "DESIGN.md")
    s = open(p).read()
    # 0.2
    rows = []
    for f in sorted(glob.glob(os.path.join(VERIF, "evidence", "C*.json"))):
        e = json.load(open(f))
        c = e["coverage"]
        rows.append("| %s | %s | %s | %s | %s | %.0f s |" % (e["property_id"], f"{c['evaluations']:,}", f"{c['states']:,}",
                                                            f"{c['distinct_nontrivial']:,}", len(c.get("known_findings_hit", {})),
                                                            e["wall_s"]))
    head = "| id | executions | states / cases | distinct non-trivial | open findings hit | wall |\n|---|---|---|---|---|---|\n"
    a = s.index(head)
    b = s.index("\n\n", a)
    s = s[:a] + head + "\n".join(rows) + s[b:]
    # 0.5
    log = subprocess.run(["git", "-C", "/repo", "log", "--format=%h %s", "9d9becb..HEAD"], stdout=subprocess.PIPE, text=True).stdout.strip().split("\n")[::-1]
    head = "| commit | defect |\n|---|---|\n"
    a = s.index(head)
    b = s.index("\n\n", a)
    s = s[:a] + head + "\n".join("| `%s` | %s |" % (l.split(" ", 1)[0], l.split(" ", 1)[1].replace("fix: ", "").replace("|", "/")) for l in log) + s[b:]
    # 0.7
    rows = []
    for d in sorted(glob.glob(os.path.join(VERIF, "seeded", "*", ""))):
        m = json.load(open(d + "meta.json"))
        sid = os.path.basename(d.rstrip("/"))

        def flat(x, n):
            if isinstance(x, list):
                x = "; ".join(map(str, x))
            if isinstance(x, dict):
                x = json.dumps(x)
            x = str(x or "").replace("\n", " ").replace("|", "/")
            return x if len(x) <= n else x[:n - 3] + "..."
        own = m["property"] in m.get("detected_by", [])
        rows.append("| %s | %s | %s | %s | %s |" % (sid, flat(m.get("summary"), 200), flat(m.get("needs"), 170),
                                                    " ".join(m.get("detected_by", [])) + ("" if own else " (not %s)" % m["property"]),
                                                    "no" if "missed" in m.get("note", "") else "yes"))
    head = "| seed | change | needs | caught by | first try |\n|---|---|---|---|---|\n"
    a = s.index(head)
    b = s.index("\n\n", a)
    s = s[:a] + head + "\n".join(rows) + s[b:]
    open(p, "w").write(s)
    print("tables regenerated: %d checks, %d fix commits, %d seeds" % (len(glob.glob(os.path.join(VERIF, "evidence", "C*.json"))), len(log), len(rows)))


if __name__ == "__main__":
    main()
