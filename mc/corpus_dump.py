"""Safety net for fix: commits (DESIGN section 5): dumps `text | cfg | ret | bytes` for the whole E1 corpus so that the
before/after diff of a repair can be inspected:  python3 -m mc.corpus_dump out.txt [quick|thorough]"""
import sys

from . import hexec
from .props import c01, c03, c04, c05


def all_cases(tier, seed=0):
    for _, g in c01.BLOCKS:
        yield from g()
    for g in (c03.cases_alu, c03.cases_shift, c03.cases_imul_push):
        yield from g(tier, seed)
    yield from c04.cases_sse()
    yield from c04.cases_bmi()
    yield from c04.cases_mem()
    yield from c05.cases_rel(tier, seed)
    yield from c05.cases_indirect()
    try:
        from .props import c02
        yield from c02.all_cases(tier, seed)
    except ImportError:
        pass


def main():
    out = sys.argv[1]
    tier = sys.argv[2] if len(sys.argv) > 2 else "quick"
    texts = sorted({c.text for c in all_cases(tier)})
    cfgs = hexec.QUICK_CFGS
    lines = [hexec.single(t, cfg) for t in texts for cfg in cfgs]
    res = hexec.run(lines)
    k = 0
    with open(out, "w") as f:
        for t in texts:
            for cfg in cfgs:
                o = res[k]
                k += 1
                if hexec.is_crash(o):
                    f.write("%s | %s | CRASH\n" % (t, "/".join(cfg)))
                else:
                    a = hexec.Asm(o[-1])
                    f.write("%s | %s | %s | %s\n" % (t, "/".join(cfg), a.ret, a.hex))
    print("%d lines x %d configs -> %s" % (len(texts), len(cfgs), out))


if __name__ == "__main__":
    main()
