/*
 * E3 seam (DESIGN section 3): -Wl,--wrap= interposers for the libc functions the library uses for memory and files.
 * Only calls made while hexec is inside an API call are counted, traced and possibly refused.
 *
 * plan (op Z<spec>, comma separated):
 *   <k>        refuse library-side call number k (0-based, counted from the start of the history)
 *   <k>/<m>    same with mode m (fwrite: 0 = writes nothing, 1 = writes half, 2 = writes all but one byte)
 *   M          every mremap is forced to MOVE the mapping (legal: the library passes MREMAP_MAYMOVE); the old range
 *              disappears, so a stale pointer faults
 *   G          every mapping the library creates (text of a file, code buffer, also after a growth) gets a PROT_NONE page right behind it (reading past the last mapped page faults
 *              deterministically instead of depending on what happens to be mapped next)
 */
#define _GNU_SOURCE
#include <errno.h>
#include <fcntl.h>
#include <stdarg.h>
#include <stdio.h>
#include <stdlib.h>
#include <string.h>
#include <sys/mman.h>
#include <sys/stat.h>
#include <unistd.h>

void *__real_malloc(size_t);
void *__real_mmap(void *, size_t, int, int, int, off_t);
void *__real_mremap(void *, size_t, size_t, int, ...);
int __real_munmap(void *, size_t);
int __real_open(const char *, int, ...);
int __real_fstat(int, struct stat *);
int __real_close(int);
FILE *__real_fopen(const char *, const char *);
size_t __real_fwrite(const void *, size_t, size_t, FILE *);
ssize_t __real_read(int, void *, size_t);
ssize_t __real_write(int, const void *, size_t);
int __real_fclose(FILE *);

#define MAXPLAN 16
#define PAGE 4096
static int in_api, counter, nplan, force_move, guard_files;
static int plan_idx[MAXPLAN], plan_mode[MAXPLAN];
static char trace[4096];
static size_t tlen;

/* mappings created by the library (in-API mmap / mremap): munmap must name exactly one of them */
#define MAXMAP 64
static void *map_addr[MAXMAP];
static size_t map_len[MAXMAP];
static int nmap;
static void map_add(void *a, size_t n) {
  if (a != MAP_FAILED && nmap < MAXMAP) {
    map_addr[nmap] = a;
    map_len[nmap] = n;
    nmap++;
  }
}
static long map_find(void *a) {
  for (int i = 0; i < nmap; i++)
    if (map_addr[i] == a) return i;
  return -1;
}
static void map_del(long i) {
  map_addr[i] = map_addr[nmap - 1];
  map_len[i] = map_len[nmap - 1];
  nmap--;
}

static void tput(const char *s) {
  size_t n = strlen(s);
  if (tlen + n + 1 < sizeof trace) {
    memcpy(trace + tlen, s, n);
    tlen += n;
    trace[tlen] = 0;
  }
}

void hxw_reset(void) {
  in_api = counter = nplan = force_move = guard_files = 0;
  nmap = 0;
  tlen = 0;
  trace[0] = 0;
}

void hxw_step(void) { tput("|"); }

void hxw_plan(const char *spec) {
  nplan = 0;
  force_move = guard_files = 0;
  while (*spec) {
    if (*spec == 'M') {
      force_move = 1;
      spec++;
    } else if (*spec == 'G') {
      guard_files = 1;
      spec++;
    } else if (*spec >= '0' && *spec <= '9') {
      char *e;
      long k = strtol(spec, &e, 10);
      int m = 0;
      if (*e == '/') m = (int)strtol(e + 1, &e, 10);
      if (nplan < MAXPLAN) {
        plan_idx[nplan] = (int)k;
        plan_mode[nplan] = m;
        nplan++;
      }
      spec = e;
    } else
      spec++;
    if (*spec == ',') spec++;
  }
}

void hxw_enter(void) { in_api = 1; }
void hxw_leave(void) { in_api = 0; }

size_t hxw_trace(char *out, size_t cap) {
  size_t n = tlen < cap ? tlen : cap - 1;
  memcpy(out, trace, n);
  return n;
}

/* returns -1 if the call proceeds, else the fault mode */
static int point(const char *name) {
  if (!in_api) return -1;
  int k = counter++;
  in_api = 0; /* tracing must not recurse */
  tput(name);
  int mode = -1;
  for (int i = 0; i < nplan; i++)
    if (plan_idx[i] == k) mode = plan_mode[i];
  tput(mode >= 0 ? "!," : ",");
  in_api = 1;
  return mode;
}

void *__wrap_malloc(size_t n) {
  if (point("malloc") >= 0) {
    errno = ENOMEM;
    return NULL;
  }
  return __real_malloc(n);
}

void *__wrap_mmap(void *addr, size_t len, int prot, int flags, int fd, off_t off) {
  if (point("mmap") >= 0) {
    errno = ENOMEM;
    return MAP_FAILED;
  }
  if (in_api && guard_files && len > 0) { /* every mapping the library creates gets a PROT_NONE page right behind it */
    size_t body = (len + PAGE - 1) / PAGE * PAGE;
    char *res = __real_mmap(NULL, body + PAGE, PROT_NONE, MAP_PRIVATE | MAP_ANONYMOUS, -1, 0);
    if (res == MAP_FAILED) return MAP_FAILED;
    void *m = __real_mmap(res, len, prot, flags | MAP_FIXED, fd, off);
    map_add(m, len);
    return m;
  }
  void *m = __real_mmap(addr, len, prot, flags, fd, off);
  if (in_api) map_add(m, len);
  return m;
}

void *__wrap_mremap(void *old, size_t old_size, size_t new_size, int flags, ...) {
  if (point("mremap") >= 0) {
    errno = ENOMEM;
    return MAP_FAILED;
  }
  void *r;
  if (in_api && (force_move || guard_files) && (flags & MREMAP_MAYMOVE)) {
    /* move to a fresh range that also has a PROT_NONE page behind it; the old range disappears */
    size_t body = (new_size + PAGE - 1) / PAGE * PAGE;
    char *target = __real_mmap(NULL, body + PAGE, PROT_NONE, MAP_PRIVATE | MAP_ANONYMOUS, -1, 0);
    if (target == MAP_FAILED) return MAP_FAILED;
    r = __real_mremap(old, old_size, new_size, MREMAP_MAYMOVE | MREMAP_FIXED, target);
  } else
    r = __real_mremap(old, old_size, new_size, flags);
  if (in_api && r != MAP_FAILED) {
    long i = map_find(old);
    if (i >= 0) map_del(i);
    map_add(r, new_size);
  }
  return r;
}

int __wrap_munmap(void *p, size_t n) {
  int refused = point("munmap") >= 0;
  if (in_api) {
    /* the library may only unmap exactly what it mapped: anything else would tear down foreign memory */
    long i = map_find(p);
    if (i < 0 || map_len[i] != n) {
      in_api = 0;
      tput(i < 0 ? "BADMUNMAP-unknown-address," : "BADMUNMAP-wrong-length,");
      in_api = 1;
      if (i >= 0) n = map_len[i]; /* contain the damage: unmap what really belongs to the library */
      else return 0;
    }
    if (!refused && i >= 0) map_del(i);
  }
  if (refused) {
    errno = EINVAL;
    return -1;
  }
  return __real_munmap(p, n);
}

int __wrap_open(const char *path, int flags, ...) {
  mode_t mode = 0;
  va_list ap;
  va_start(ap, flags);
  mode = va_arg(ap, mode_t);
  va_end(ap);
  if (point("open") >= 0) {
    errno = EACCES;
    return -1;
  }
  return __real_open(path, flags, mode);
}

int __wrap_fstat(int fd, struct stat *st) {
  if (point("fstat") >= 0) {
    errno = EIO;
    return -1;
  }
  return __real_fstat(fd, st);
}

int __wrap_close(int fd) {
  if (point("close") >= 0) {
    errno = EIO;
    return -1;
  }
  return __real_close(fd);
}

FILE *__wrap_fopen(const char *path, const char *mode) {
  if (point("fopen") >= 0) {
    errno = EACCES;
    return NULL;
  }
  return __real_fopen(path, mode);
}

size_t __wrap_fwrite(const void *p, size_t sz, size_t n, FILE *f) {
  int m = point("fwrite");
  if (m >= 0) {
    size_t k = m == 1 ? n / 2 : (m == 2 && n > 0 ? n - 1 : 0);
    errno = ENOSPC;
    if (k) {
      int save = in_api;
      in_api = 0;
      __real_fwrite(p, sz, k, f);
      in_api = save;
    }
    return k;
  }
  return __real_fwrite(p, sz, n, f);
}

/* read and write: mode 1 is a short transfer (half of what was asked for) - legal behaviour of the OS that a correct caller
 * absorbs or reports, never a reason for a wrong result; every other mode refuses the call */
ssize_t __wrap_read(int fd, void *p, size_t n) {
  int m = point("read");
  if (m == 1) return __real_read(fd, p, n > 1 ? n / 2 : n);
  if (m >= 0) {
    errno = EIO;
    return -1;
  }
  return __real_read(fd, p, n);
}

ssize_t __wrap_write(int fd, const void *p, size_t n) {
  int m = point("write");
  if (m == 1) return __real_write(fd, p, n > 1 ? n / 2 : n);
  if (m >= 0) {
    errno = ENOSPC;
    return -1;
  }
  return __real_write(fd, p, n);
}

int __wrap_fclose(FILE *f) {
  if (point("fclose") >= 0) {
    int save = in_api;
    in_api = 0;
    __real_fclose(f);
    in_api = save;
    errno = EIO;
    return EOF;
  }
  return __real_fclose(f);
}
