/* Field-wise dump of struct assemblyline, compiled against the repository's own header so that it
 * follows layout changes (DESIGN 4.1b).  Kept in its own translation unit: enums.h declares an
 * enumerator `setns` that clashes with glibc's setns() once <sched.h> is visible. */
#include "instruction_data.h"
#include <stdio.h>
#include <string.h>

void hx_state_dump(struct assemblyline *al, char *out, size_t cap) {
  snprintf(out, cap, "%d:%d:%zu:%d:%d:%u:%d:%d", al->buffer_len, al->offset, al->chunk_size,
           (int)al->external, (int)al->assembly_mode, (unsigned)al->assembly_opt, (int)al->debug,
           (int)al->finalized);
}
