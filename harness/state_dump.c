/* Field-wise dump of struct assemblyline, compiled against the repository's own header so that it
 * follows layout changes (DESIGN 4.1b).  Kept in its own translation unit: enums.h declares an
 * enumerator `setns` that clashes with glibc's setns() once <sched.h> is visible. */
#ifdef HX_NO_STATE_DUMP
/* fallback used when the field names below no longer exist in the tree (an internal refactoring): the dump is only an
 * additional deduplication key of C12's BFS, never an oracle, so the executor must still build */
#include <stdio.h>
#include <string.h>
void hx_state_dump(void *al, char *out, size_t cap) {
  (void)al;
  snprintf(out, cap, "unavailable");
}
#else
#include "instruction_data.h"
#include <stdio.h>
#include <string.h>

void hx_state_dump(struct assemblyline *al, char *out, size_t cap) {
  snprintf(out, cap, "%d:%d:%zu:%d:%d:%u:%d:%d", al->buffer_len, al->offset, al->chunk_size,
           (int)al->external, (int)al->assembly_mode, (unsigned)al->assembly_opt, (int)al->debug,
           (int)al->finalized);
}
#endif
