/*
 * c09_enum — sanitizer-monitored exhaustive enumerator of input strings (DESIGN section 6, C09).
 *
 *   c09_enum <mode> <bound> <shard> <nshards>
 *
 * modes (every string is run under 7 settings: {plain, fitting c=4, counting c=4} x {default, all-STRICT}, and fitting c=32 at
 * the last legal offset of a 41-byte heap buffer):
 *   bytes   all strings of length <= 2 over bytes 1..255 and of length 3 over a 64-symbol subset      (bound ignored)
 *   struct  all strings of length <= bound over the structural alphabet  a x r 0 1 9 SP , [ ] + - * ; : LF TAB 0x80
 *   tokens  all token sequences of depth <= bound over ~27 tokens
 *   lines   mnemonic x 0..min(bound,3) operands from a 40-entry operand menu, plus 4..min(bound+2,6) operands from a 10-entry menu
 *
 * The library is built with ASan + UBSan in abort mode; a worker child runs the enumeration and publishes the index it
 * is executing in shared memory; when it dies (sanitizer abort, signal, watchdog alarm) the parent prints one FAIL line
 * with the offending input and restarts the worker behind it.
 *
 * output:  FAIL <index> <setting> <signal> <escaped input>|<sanitizer summary>      DONE <executions> <inputs> <fails>
 */
#define _GNU_SOURCE
#include <errno.h>
#include <fcntl.h>
#include <signal.h>
#include <stdint.h>
#include <stdio.h>
#include <stdlib.h>
#include <string.h>
#include <sys/mman.h>
#include <sys/wait.h>
#include <unistd.h>

#include "assemblyline.h"

static const char *STRUCT_ALPHA[] = {"a", "x", "r", "0", "1", "9", " ", ",", "[", "]", "+", "-", "*", ";", ":", "\n", "\t", "\x80"};
#define NSTRUCT 18
static const char *TOKENS[] = {"mov", "add", "lea", "vpaddd", "jmp", "push", "shl", "nop", "rax", "eax", "al", "ah", "r8", "xmm1",
                               "ymm2", "mm3", "[", "]", "+", "-", "*", ",", " ", "1", "0x10", "byte", "qword", "short", "far",
                               "\n", ";"};
#define NTOK 31
static const char *MNEMS[] = {"mov", "add", "lea", "imul", "shl", "push", "jmp", "vpaddd", "paddb", "bextr", "movq", "setne",
                              "vperm2i128", "xchg", "nop"};
#define NMN 15
static const char *OPMENU[] = {"rax", "eax", "ax", "al", "ah", "r8", "r15d", "xmm1", "ymm9", "mm2", "[rax]", "[rax+rcx*2+0x10]",
                               "[2*rax]", "[0x10]", "[rsp]", "[rbp+r13]", "byte [rax]", "qword [r8-0x80]", "1", "-1", "0x7f",
                               "0x1122334455667788", "raxx", "r16", "xmm16", "e", "[", "]", "[rax", "rax]", "[[rax]]", "[rax+]",
                               "[+rax]", "[rax*3]", "[rax+rsp*2]", "[-]", "", " ", "-", "0x"};
#define NOP 40
static const char *OPMENU10[] = {"rax", "xmm1", "ymm2", "[rax]", "1", "", "[rax+rcx*2]", "al", "0x10", "r9"};
#define NOP10 10

struct shared {
  volatile uint64_t index;    /* input index being executed */
  volatile int setting;
  volatile uint64_t execs;
  char cur[512];
};
static struct shared *sh;
static int errfd = -1;
static uint8_t codebuf[8192];

static uint64_t ipow(uint64_t b, int e) {
  uint64_t r = 1;
  while (e-- > 0) r *= b;
  return r;
}

/* number of inputs of a mode */
static uint64_t space(const char *mode, int bound) {
  if (!strcmp(mode, "bytes")) return 1 + 255 + 255 * 255 + 64 * 64 * 64;
  if (!strcmp(mode, "struct")) {
    uint64_t n = 0;
    for (int l = 0; l <= bound; l++) n += ipow(NSTRUCT, l);
    return n;
  }
  if (!strcmp(mode, "tokens")) {
    uint64_t n = 0;
    for (int l = 1; l <= bound; l++) n += ipow(NTOK, l);
    return n;
  }
  if (!strcmp(mode, "lines")) {
    uint64_t n = 0;
    for (int k = 0; k <= (bound < 3 ? bound : 3); k++) n += NMN * ipow(NOP, k);
    for (int k = 4; k <= (bound + 2 < 6 ? bound + 2 : 6); k++) n += NMN * ipow(NOP10, k);
    return n;
  }
  return 0;
}

static void gen(const char *mode, int bound, uint64_t idx, char *out, size_t cap) {
  size_t n = 0;
  out[0] = 0;
#define APP(s)                                                                                     \
  do {                                                                                             \
    size_t l_ = strlen(s);                                                                         \
    if (n + l_ + 1 < cap) {                                                                        \
      memcpy(out + n, s, l_);                                                                      \
      n += l_;                                                                                     \
      out[n] = 0;                                                                                  \
    }                                                                                              \
  } while (0)
  if (!strcmp(mode, "bytes")) {
    if (idx == 0) return;
    idx -= 1;
    if (idx < 255) {
      out[0] = (char)(idx + 1);
      out[1] = 0;
      return;
    }
    idx -= 255;
    if (idx < 255 * 255) {
      out[0] = (char)(idx / 255 + 1);
      out[1] = (char)(idx % 255 + 1);
      out[2] = 0;
      return;
    }
    idx -= 255 * 255;
    static const char sub[65] = "abcdefxyrsz0123456789 ,[]+-*;:\n\t\r%$#@!\"'()<>=?_{}|~^&./\\`AXR\x7f\x80\xff\x01";
    out[0] = sub[idx / 4096];
    out[1] = sub[(idx / 64) % 64];
    out[2] = sub[idx % 64];
    out[3] = 0;
    return;
  }
  if (!strcmp(mode, "struct")) {
    int l = 0;
    while (idx >= ipow(NSTRUCT, l)) {
      idx -= ipow(NSTRUCT, l);
      l++;
    }
    for (int i = 0; i < l; i++) {
      APP(STRUCT_ALPHA[idx % NSTRUCT]);
      idx /= NSTRUCT;
    }
    return;
  }
  if (!strcmp(mode, "tokens")) {
    int l = 1;
    while (idx >= ipow(NTOK, l)) {
      idx -= ipow(NTOK, l);
      l++;
    }
    for (int i = 0; i < l; i++) {
      APP(TOKENS[idx % NTOK]);
      idx /= NTOK;
    }
    return;
  }
  /* lines */
  for (int k = 0; k <= (bound < 3 ? bound : 3); k++) {
    uint64_t sz = NMN * ipow(NOP, k);
    if (idx < sz) {
      APP(MNEMS[idx % NMN]);
      idx /= NMN;
      for (int i = 0; i < k; i++) {
        APP(i ? ", " : " ");
        APP(OPMENU[idx % NOP]);
        idx /= NOP;
      }
      return;
    }
    idx -= sz;
  }
  for (int k = 4; k <= (bound + 2 < 6 ? bound + 2 : 6); k++) {
    uint64_t sz = NMN * ipow(NOP10, k);
    if (idx < sz) {
      APP(MNEMS[idx % NMN]);
      idx /= NMN;
      for (int i = 0; i < k; i++) {
        APP(i ? ", " : " ");
        APP(OPMENU10[idx % NOP10]);
        idx /= NOP10;
      }
      return;
    }
    idx -= sz;
  }
}

static void run_one(const char *gen_text) {
  /* the input lives in a heap block of exactly strlen+1 bytes (and so does the writable copy the counting entry point gets):
   * a scan that runs past the terminating NUL lands in the ASan red zone / in MSan-poisoned allocator padding instead of in
   * the zero tail of a static buffer (seeded/C09_6: a two-byte skip over "\\\r" at the very end of the text) */
  size_t tlen = strlen(gen_text);
  char *text = malloc(tlen + 1), *copy = malloc(tlen + 1);
  if (!text || !copy) _exit(7);
  memcpy(text, gen_text, tlen + 1);
  for (int s = 0; s < 6; s++) {
    sh->setting = s;
    assemblyline_t al = asm_create_instance(codebuf, sizeof codebuf);
    if (!al) _exit(7);
    if (s >= 3) asm_set_all(al, STRICT);
    int m = s % 3, r, dest = 0;
    if (m == 1) asm_set_chunk_size(al, 4);
    if (m == 2) {
      memcpy(copy, gen_text, tlen + 1);
      r = asm_assemble_string_counting_chunks(al, copy, 4, &dest);
    } else
      r = asm_assemble_str(al, text);
    if (r != 0 && r != 1) _exit(8); /* EXIT_SUCCESS or EXIT_FAILURE only */
    asm_destroy_instance(al);
    sh->execs++;
  }
  /* seventh setting: a heap buffer of exactly 41 bytes (ASan red zone right behind it), writing from offset 21 - the last
   * position the 20-byte reserve allows - with chunk size 32, so that padding plus instruction would pass the end */
  {
    sh->setting = 6;
    uint8_t *small = malloc(41);
    if (!small) _exit(7);
    assemblyline_t al = asm_create_instance(small, 41);
    if (!al) _exit(7);
    asm_set_chunk_size(al, 32);
    asm_set_offset(al, 21);
    int r = asm_assemble_str(al, text);
    if (r != 0 && r != 1) _exit(8);
    asm_destroy_instance(al);
    free(small);
    sh->execs++;
  }
  free(text);
  free(copy);
}

static void put_escaped(const char *s) {
  for (; *s; s++) {
    unsigned char c = (unsigned char)*s;
    if (c == '\\') fputs("\\\\", stdout);
    else if (c == '\n') fputs("\\n", stdout);
    else if (c == '\t') fputs("\\t", stdout);
    else if (c == '\r') fputs("\\r", stdout);
    else if (c < 0x20 || c > 0x7e || c == '|') printf("\\x%02x", c);
    else putchar(c);
  }
}

static void scan_err(char *sum, size_t cap) {
  sum[0] = 0;
  off_t len = lseek(errfd, 0, SEEK_END);
  if (len <= 0) return;
  size_t n = len > 65536 ? 65536 : (size_t)len;
  char *b = malloc(n + 1);
  ssize_t got = pread(errfd, b, n, len - (off_t)n);
  if (got > 0) {
    b[got] = 0;
    const char *marks[] = {"runtime error:", "SUMMARY: ", "ERROR: AddressSanitizer", "WARNING: MemorySanitizer", NULL};
    char *best = NULL;
    for (int m = 0; marks[m] && !best; m++) best = strstr(b, marks[m]);
    if (best) {
      char *ls = best;
      while (ls > b && ls[-1] != '\n') ls--;
      char *le = strchr(best, '\n');
      if (!le) le = b + got;
      size_t k = (size_t)(le - ls);
      if (k > cap - 1) k = cap - 1;
      memcpy(sum, ls, k);
      sum[k] = 0;
    }
  }
  free(b);
  if (ftruncate(errfd, 0)) {}
  lseek(errfd, 0, SEEK_SET);
}

int main(int argc, char **argv) {
  if (argc < 5) return 2;
  const char *mode = argv[1];
  int bound = atoi(argv[2]);
  uint64_t shard = strtoull(argv[3], NULL, 10), nsh = strtoull(argv[4], NULL, 10);
  uint64_t total = space(mode, bound);
  uint64_t lo = total * shard / nsh, hi = total * (shard + 1) / nsh;
  sh = mmap(NULL, sizeof *sh, PROT_READ | PROT_WRITE, MAP_SHARED | MAP_ANONYMOUS, -1, 0);
  sh->index = lo;
  sh->execs = 0;
  char tmpl[512];
  snprintf(tmpl, sizeof tmpl, "%s/c09_err_XXXXXX", getenv("HEXEC_TMP") ? getenv("HEXEC_TMP") : "/tmp");
  errfd = mkstemp(tmpl);
  if (errfd >= 0) {
    unlink(tmpl);
    fcntl(errfd, F_SETFL, O_APPEND);
  }
  uint64_t fails = 0;
  int maxfails = getenv("C09_MAXFAILS") ? atoi(getenv("C09_MAXFAILS")) : 400;
  while (sh->index < hi && fails < (uint64_t)maxfails) {
    pid_t w = fork();
    if (w == 0) {
      if (errfd >= 0) dup2(errfd, 2);
      static char text[512];
      uint64_t i = sh->index;
      while (i < hi) {
        if ((i & 1023) == 0 || i == sh->index) alarm(20);
        gen(mode, bound, i, text, sizeof text);
        memcpy(sh->cur, text, sizeof sh->cur);
        sh->index = i;
        run_one(text);
        i++;
      }
      sh->index = hi;
      _exit(0);
    }
    int st = 0;
    while (waitpid(w, &st, 0) < 0 && errno == EINTR) {}
    if (sh->index < hi) {
      char sum[400];
      scan_err(sum, sizeof sum);
      int sig = WIFSIGNALED(st) ? WTERMSIG(st) : 1000 + WEXITSTATUS(st);
      printf("FAIL %llu %d %d ", (unsigned long long)sh->index, sh->setting, sig);
      char cur[512];
      memcpy(cur, sh->cur, sizeof cur);
      cur[sizeof cur - 1] = 0;
      put_escaped(cur);
      printf("|%s\n", sum);
      fflush(stdout);
      fails++;
      sh->index = sh->index + 1;
    }
  }
  printf("DONE %llu %llu %llu %s\n", (unsigned long long)sh->execs, (unsigned long long)(sh->index - lo), (unsigned long long)fails,
         sh->index < hi ? "CAPPED" : "complete");
  return 0;
}
