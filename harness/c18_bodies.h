/* Thread bodies shared by the scheduler harness (sched.c) and its free-running ThreadSanitizer twin (c18_tsan.c):
 * every thread creates, configures, uses and destroys its OWN instance on its OWN buffer. */
#ifndef C18_BODIES_H
#define C18_BODIES_H
#include <stdint.h>
#include <stdlib.h>
#include <string.h>

#include "assemblyline.h"

#define C18_MAXT 4
#define C18_BUF 512

struct c18_result {
  int created;
  int ret1, off1, ret2, off2, dest;
  uint8_t code[C18_BUF];
};

static const char *const C18_PROG[C18_MAXT] = {
    "mov rax, 0x7fffffff\nlea r15, [rax+rsp]\n",
    "add rcx, 0x10\nvpaddd ymm1, ymm2, [2*rax]\n",
    "xor eax, eax\npush r9\n",
    "sub rdx, rbx\nbextr rax, rbx, rcx\n",
};
static const char *const C18_PROG2[C18_MAXT] = {
    "jmp 0x10\nshl rax, 1\n",
    "cmovne rax, rbx\nnop5\n",
    "imul rax, rbx, 0x12\nret\n",
    "paddb xmm1, xmm2\ninc rax\n",
};

/* provided by each harness: marks a stretch that the scheduler runs as one step (no-op in the free-running twin) */
void c18_quiet(int on);

static inline void c18_options(assemblyline_t al, int id) {
  switch (id) {
  case 0: asm_set_all(al, STRICT); break;
  case 1: asm_mov_imm(al, NASM); break;
  case 2: asm_sib(al, STRICT); break;
  default: asm_set_all(al, NASM); break;
  }
}

/* variant 2: library-managed buffers with history - create, assemble 7 kB (the buffer grows and moves), destroy, create
 * again, assemble, destroy.  Whatever the library keeps from a destroyed instance (a spare buffer, a pool, a cache) is live
 * when the second create of one thread meets the create / destroy of another. */
static inline void c18_body_grow(int id, struct c18_result *r) {
  enum { LINES = 700, LEN = 28 };
  char *big = malloc(LINES * LEN + 1);     /* private to this call */
  for (int k = 0; k < LINES; k++) memcpy(big + LEN * k, "mov rax, 0x1122334455667788\n", LEN);
  big[LINES * LEN] = 0;
  memset(r, 0, sizeof *r);
  assemblyline_t al = asm_create_instance(NULL, 0);
  r->created = al != NULL;
  if (!al) {
    free(big);
    return;
  }
  c18_options(al, id);
  c18_quiet(1);
  r->ret1 = asm_assemble_str(al, big);
  r->off1 = asm_get_offset(al);
  c18_quiet(0);
  free(big);
  asm_destroy_instance(al);
  al = asm_create_instance(NULL, 0);
  if (!al) {
    r->created = 2;
    return;
  }
  c18_options(al, id);
  r->ret2 = asm_assemble_str(al, C18_PROG[id]);
  r->off2 = asm_get_offset(al);
  int n = asm_get_offset(al);
  if (n > 0 && n <= C18_BUF) memcpy(r->code, asm_get_code(al), (size_t)n);
  asm_destroy_instance(al);
}

/* variant 0: create / option / assemble / destroy;  variant 1: + second call (fitting or counting) */
static inline void c18_body(int id, int variant, uint8_t *buf, struct c18_result *r) {
  if (variant == 2) {
    c18_body_grow(id, r);
    return;
  }
  memset(r, 0, sizeof *r);
  memset(buf, 0xcc, C18_BUF);
  assemblyline_t al = (id == 1) ? asm_create_instance(NULL, 0) : asm_create_instance(buf, C18_BUF);
  r->created = al != NULL;
  if (!al) return;
  switch (id) {
  case 0: asm_set_all(al, STRICT); break;
  case 1: asm_mov_imm(al, NASM); break;
  case 2: asm_sib(al, STRICT); break;
  default: asm_set_all(al, NASM); break;
  }
  r->ret1 = asm_assemble_str(al, C18_PROG[id]);
  r->off1 = asm_get_offset(al);
  if (variant == 1) {
    if (id % 2 == 0) {
      asm_set_chunk_size(al, 8);
      r->ret2 = asm_assemble_str(al, C18_PROG2[id]);
    } else {
      char tmp[128];
      strcpy(tmp, C18_PROG2[id]);
      r->ret2 = asm_assemble_string_counting_chunks(al, tmp, 4, &r->dest);
    }
    r->off2 = asm_get_offset(al);
  }
  int n = asm_get_offset(al);
  if (n > 0 && n <= C18_BUF) memcpy(r->code, asm_get_code(al), (size_t)n);
  asm_destroy_instance(al);
}
#endif
