/*
 * E4 — pre-emption-bounded scheduler and stateless explorer for C18 (DESIGN section 3).
 *
 *   sched <nthreads> <variant> <k> <shard> <nshards> [gran]
 *
 * nthreads real pthreads run the bodies of c18_bodies.h on private instances under a cooperative scheduler that lets
 * exactly one of them run and decides, at every scheduling point, who runs next.  Scheduling points are injected without
 * touching the source, by compiler instrumentation of the library's translation units:
 *   -finstrument-functions   one point per library function entry and exit,
 *   -fsanitize=thread        (compile only; the runtime is NOT linked, the __tsan_* entry points are defined below) one
 *                            point per atomic operation and per plain load/store whose address lies in the writable global
 *                            data of the program - i.e. at every access to memory that threads can share by name,
 *   -Wl,--wrap               one point per mmap / munmap / mremap / pthread_once / mutex operation of the library.
 * gran = "full" (all points), "coarse" (no function-exit points) or "access" (shared-memory accesses and the wrapped calls
 * only: between two such operations a thread touches private memory only, so pre-empting it there changes nothing - the
 * classical reduction to visible operations; this is what makes bounds 3 and 4 and the long bodies affordable).
 *
 * The explorer enumerates depth-first ALL schedules with at most k pre-emptions (a pre-emption = switching away from a
 * thread that could continue; the switch at a thread's end is free).  Deviations are (point number, target thread) pairs in
 * increasing point order, so every schedule is visited exactly once.  The first deviation is used to shard the search.
 * Each execution runs in its own fresh process (lazily built process-global state starts from scratch every time) and is
 * compared with the single-threaded reference of each body; a crash is reported with the schedule that was executing.
 *
 * output: VIOL <kind> <schedule> | detail     and     DONE schedules=<n> points=<n> maxpreempt=<k> outcomes=<n>
 */
#define _GNU_SOURCE
#include <errno.h>
#include <fcntl.h>
#include <limits.h>
#include <linux/futex.h>
#include <pthread.h>
#include <signal.h>
#include <stdint.h>
#include <stdio.h>
#include <stdlib.h>
#include <string.h>
#include <sys/mman.h>
#include <sys/syscall.h>
#include <sys/wait.h>
#include <unistd.h>

#include "c18_bodies.h"

#define MAXP 8192
#define MAXDEV 4

static int nthreads, variant, kmax, coarse, access_mode;
static __thread int quiet; /* body-controlled: a stretch run as ONE step (c18_quiet) */
static volatile int turn = -1;
static __thread int self = -1;
static __thread int inhook = 0;
static volatile int finished[C18_MAXT];
static long point_no;
static int ndev, nextdev;
static long dev_point[MAXDEV];
static int dev_target[MAXDEV];
static unsigned char tr_thread[MAXP], tr_fin[MAXP];
static struct c18_result ref[C18_MAXT], got[C18_MAXT];
static uint8_t bufs[C18_MAXT][C18_BUF];

/* result of one execution, written by the per-schedule child */
struct exec_out {
  long npoints;
  unsigned char thr[MAXP], fin[MAXP];
  struct c18_result got[C18_MAXT];
};
static struct exec_out *ex;

struct shared {
  volatile long schedules;
  volatile int cur_ndev;
  volatile long cur_point[MAXDEV];
  volatile int cur_target[MAXDEV];
  volatile long maxpoints;
  volatile long viol;
  volatile int capped;
  volatile uint64_t outcome_hash[64];
  volatile int noutcomes;
};
static struct shared *sh;

static void fwait(int v) { syscall(SYS_futex, &turn, FUTEX_WAIT, v, NULL, NULL, 0); }
static void fwake(void) { syscall(SYS_futex, &turn, FUTEX_WAKE, INT_MAX, NULL, NULL, 0); }

static void wait_turn(void) {
  int t;
  while ((t = __atomic_load_n(&turn, __ATOMIC_ACQUIRE)) != self) fwait(t);
}

static void hand_to(int t) {
  __atomic_store_n(&turn, t, __ATOMIC_RELEASE);
  fwake();
}

void sched_point(void) {
  if (self < 0 || inhook || quiet) return;
  inhook = 1;
  long i = point_no++;
  if (i < MAXP) {
    tr_thread[i] = (unsigned char)self;
    unsigned char f = 0;
    for (int t = 0; t < nthreads; t++)
      if (finished[t]) f |= (unsigned char)(1 << t);
    tr_fin[i] = f;
  }
  if (nextdev < ndev && dev_point[nextdev] == i) {
    int t = dev_target[nextdev++];
    if (t != self && !finished[t]) {
      hand_to(t);
      wait_turn();
    }
  }
  inhook = 0;
}

/* ---- blocking primitives the code under test may use (pthread_once, call_once, pthread mutexes) -------------------------
 * A cooperative scheduler must know when a thread cannot continue: a thread that would block on a primitive held by
 * another managed thread hands the turn to the holder instead of really blocking (which would stall the whole execution,
 * because the holder is suspended).  Linked with -Wl,--wrap=...; unmanaged callers (self < 0) use the real functions. */
#define MAXSYNC 64
struct syncobj {
  void *addr;
  int state; /* once: 0 new, 1 running, 2 done;  mutex: 0 free, 1 held */
  int owner;
};
static struct syncobj syncs[MAXSYNC];
static int nsync;
static struct syncobj *sync_of(void *addr) {
  for (int i = 0; i < nsync; i++)
    if (syncs[i].addr == addr) return &syncs[i];
  if (nsync == MAXSYNC) return &syncs[MAXSYNC - 1];
  syncs[nsync].addr = addr;
  syncs[nsync].state = 0;
  syncs[nsync].owner = -1;
  return &syncs[nsync++];
}
static void yield_to(int owner) {
  int was = inhook;
  inhook = 1;
  hand_to(owner);
  wait_turn();
  inhook = was;
}

int __real_pthread_once(pthread_once_t *, void (*)(void));
int __wrap_pthread_once(pthread_once_t *once, void (*init)(void)) {
  if (self < 0) return __real_pthread_once(once, init);
  sched_point();
  struct syncobj *o = sync_of(once);
  while (o->state == 1 && o->owner != self) yield_to(o->owner);
  if (o->state == 2) return 0;
  o->state = 1;
  o->owner = self;
  init();
  o->state = 2;
  sched_point();
  return 0;
}
#include <threads.h>
void __real_call_once(once_flag *, void (*)(void));
void __wrap_call_once(once_flag *flag, void (*init)(void)) {
  if (self < 0) {
    __real_call_once(flag, init);
    return;
  }
  __wrap_pthread_once((pthread_once_t *)flag, init);
}
int __real_pthread_mutex_lock(pthread_mutex_t *);
int __real_pthread_mutex_unlock(pthread_mutex_t *);
int __wrap_pthread_mutex_lock(pthread_mutex_t *m) {
  if (self < 0) return __real_pthread_mutex_lock(m);
  sched_point();
  struct syncobj *o = sync_of(m);
  while (o->state == 1 && o->owner != self) yield_to(o->owner);
  o->state = 1;
  o->owner = self;
  return 0;
}
int __wrap_pthread_mutex_unlock(pthread_mutex_t *m) {
  if (self < 0) return __real_pthread_mutex_unlock(m);
  struct syncobj *o = sync_of(m);
  o->state = 0;
  o->owner = -1;
  sched_point();
  return 0;
}

void c18_quiet(int on) { quiet = on; }

/* mapping calls of the library: visible operations (a buffer handed to two instances shows as a double munmap) */
void *__real_mmap(void *, size_t, int, int, int, off_t);
void *__wrap_mmap(void *a, size_t n, int p, int f, int fd, off_t o) {
  sched_point();
  return __real_mmap(a, n, p, f, fd, o);
}
int __real_munmap(void *, size_t);
int __wrap_munmap(void *a, size_t n) {
  sched_point();
  return __real_munmap(a, n);
}
void *__real_mremap(void *, size_t, size_t, int, ...);
void *__wrap_mremap(void *a, size_t o, size_t n, int fl, ...) {
  sched_point();
  return __real_mremap(a, o, n, fl);
}

void __cyg_profile_func_enter(void *fn, void *site) __attribute__((no_instrument_function));
void __cyg_profile_func_exit(void *fn, void *site) __attribute__((no_instrument_function));
void __cyg_profile_func_enter(void *fn, void *site) {
  (void)fn;
  (void)site;
  if (!access_mode) sched_point();
}
void __cyg_profile_func_exit(void *fn, void *site) {
  (void)fn;
  (void)site;
  if (!coarse && !access_mode) sched_point();
}

/* ---- the ThreadSanitizer compile-time interface, implemented here instead of by libtsan ----------------------------------
 * The library is compiled with -fsanitize=thread, which makes the compiler call __tsan_readN / __tsan_writeN before every
 * load / store it cannot prove private and __tsan_atomicN_* instead of every atomic operation.  A load or store becomes a
 * scheduling point when its address is in the program's writable global data; atomics always are. */
extern char __data_start[], _end[];
static inline void gpoint(const void *a) {
  if ((const char *)a >= __data_start && (const char *)a < _end) sched_point();
}
#define TSAN_RW(n)                                   \
  void __tsan_read##n(void *a) { gpoint(a); }        \
  void __tsan_write##n(void *a) { gpoint(a); }       \
  void __tsan_unaligned_read##n(void *a) { gpoint(a); } \
  void __tsan_unaligned_write##n(void *a) { gpoint(a); }
TSAN_RW(1) TSAN_RW(2) TSAN_RW(4) TSAN_RW(8) TSAN_RW(16)
void __tsan_read_range(void *a, long n) { (void)n; gpoint(a); }
void __tsan_write_range(void *a, long n) { (void)n; gpoint(a); }
void __tsan_func_entry(void *pc) { (void)pc; }
void __tsan_func_exit(void) {}
void __tsan_init(void) {}
void __tsan_vptr_update(void **p, void *v) { (void)p; (void)v; }
void __tsan_vptr_read(void **p) { (void)p; }
#define TSAN_ATOMIC(bits, T)                                                                                              \
  T __tsan_atomic##bits##_load(const volatile T *a, int mo) { (void)mo; sched_point(); return __atomic_load_n(a, __ATOMIC_SEQ_CST); } \
  void __tsan_atomic##bits##_store(volatile T *a, T v, int mo) { (void)mo; sched_point(); __atomic_store_n(a, v, __ATOMIC_SEQ_CST); } \
  T __tsan_atomic##bits##_exchange(volatile T *a, T v, int mo) { (void)mo; sched_point(); return __atomic_exchange_n(a, v, __ATOMIC_SEQ_CST); } \
  T __tsan_atomic##bits##_fetch_add(volatile T *a, T v, int mo) { (void)mo; sched_point(); return __atomic_fetch_add(a, v, __ATOMIC_SEQ_CST); } \
  T __tsan_atomic##bits##_fetch_sub(volatile T *a, T v, int mo) { (void)mo; sched_point(); return __atomic_fetch_sub(a, v, __ATOMIC_SEQ_CST); } \
  T __tsan_atomic##bits##_fetch_and(volatile T *a, T v, int mo) { (void)mo; sched_point(); return __atomic_fetch_and(a, v, __ATOMIC_SEQ_CST); } \
  T __tsan_atomic##bits##_fetch_or(volatile T *a, T v, int mo) { (void)mo; sched_point(); return __atomic_fetch_or(a, v, __ATOMIC_SEQ_CST); } \
  T __tsan_atomic##bits##_fetch_xor(volatile T *a, T v, int mo) { (void)mo; sched_point(); return __atomic_fetch_xor(a, v, __ATOMIC_SEQ_CST); } \
  T __tsan_atomic##bits##_fetch_nand(volatile T *a, T v, int mo) { (void)mo; sched_point(); return __atomic_fetch_nand(a, v, __ATOMIC_SEQ_CST); } \
  int __tsan_atomic##bits##_compare_exchange_strong(volatile T *a, T *c, T v, int mo, int fmo) {                          \
    (void)mo; (void)fmo; sched_point();                                                                                   \
    return __atomic_compare_exchange_n(a, c, v, 0, __ATOMIC_SEQ_CST, __ATOMIC_SEQ_CST);                                   \
  }                                                                                                                       \
  int __tsan_atomic##bits##_compare_exchange_weak(volatile T *a, T *c, T v, int mo, int fmo) {                            \
    (void)mo; (void)fmo; sched_point();                                                                                   \
    return __atomic_compare_exchange_n(a, c, v, 0, __ATOMIC_SEQ_CST, __ATOMIC_SEQ_CST);                                   \
  }                                                                                                                       \
  T __tsan_atomic##bits##_compare_exchange_val(volatile T *a, T c, T v, int mo, int fmo) {                                \
    (void)mo; (void)fmo; sched_point();                                                                                   \
    __atomic_compare_exchange_n(a, &c, v, 0, __ATOMIC_SEQ_CST, __ATOMIC_SEQ_CST);                                         \
    return c;                                                                                                             \
  }
TSAN_ATOMIC(8, uint8_t) TSAN_ATOMIC(16, uint16_t) TSAN_ATOMIC(32, uint32_t) TSAN_ATOMIC(64, uint64_t)
void __tsan_atomic_thread_fence(int mo) { (void)mo; sched_point(); __atomic_thread_fence(__ATOMIC_SEQ_CST); }
void __tsan_atomic_signal_fence(int mo) { (void)mo; }

static void *thread_main(void *arg) {
  int id = (int)(intptr_t)arg;
  self = id;
  wait_turn();
  c18_body(id, variant, bufs[id], &got[id]);
  inhook = 1;
  finished[id] = 1;
  int next = -2;
  for (int t = 0; t < nthreads; t++)
    if (!finished[t]) {
      next = t;
      break;
    }
  hand_to(next);   /* -2: everybody is done (main waits in pthread_join) */
  return NULL;
}

static long run_threads(void) {
  pthread_t th[C18_MAXT];
  point_no = 0;
  nextdev = 0;
  turn = -1;
  for (int t = 0; t < nthreads; t++) finished[t] = 0;
  for (int t = 0; t < nthreads; t++) pthread_create(&th[t], NULL, thread_main, (void *)(intptr_t)t);
  hand_to(0);
  for (int t = 0; t < nthreads; t++) pthread_join(th[t], NULL);
  return point_no;
}

/* Every schedule runs in a FRESH process: process-global state that the library builds lazily (the index tables) is in
 * its initial state at the start of every execution, so the window "the very first calls of a process overlap" is
 * explored by every schedule and not only by the first one.  Returns the number of points, or -1 if the child died. */
static int last_status;
static long run_schedule(void) {
  pid_t c = fork();
  if (c == 0) {
    long np = run_threads();
    ex->npoints = np;
    long k = np < MAXP ? np : MAXP;
    memcpy(ex->thr, tr_thread, (size_t)k);
    memcpy(ex->fin, tr_fin, (size_t)k);
    memcpy(ex->got, got, sizeof got);
    _exit(0);
  }
  int st = 0;
  /* watchdog: an execution that does not finish within 20 s is a hang (deadlock / livelock) of that schedule */
  for (int waited = 0;; waited++) {
    pid_t r = waitpid(c, &st, WNOHANG);
    if (r == c) break;
    if (r < 0 && errno != EINTR) break;
    if (waited > 20000) {
      kill(c, SIGKILL);
      waitpid(c, &st, 0);
      st = 0x7f00 | SIGALRM; /* reported as a death by signal 14 */
      last_status = SIGALRM;
      return -1;
    }
    usleep(waited < 50 ? 20 : 1000);
  }
  last_status = st;
  if (!(WIFEXITED(st) && WEXITSTATUS(st) == 0)) return -1;
  memcpy(tr_thread, ex->thr, MAXP);
  memcpy(tr_fin, ex->fin, MAXP);
  memcpy(got, ex->got, sizeof got);
  return ex->npoints;
}

static void print_sched(void) {
  printf("[");
  for (int d = 0; d < ndev; d++) printf("%s%ld>%d", d ? "," : "", dev_point[d], dev_target[d]);
  printf("]");
}

static void check(void) {
  uint64_t h = 1469598103934665603ull;
  for (int t = 0; t < nthreads; t++) {
    const unsigned char *p = (const unsigned char *)&got[t];
    for (size_t i = 0; i < sizeof got[t]; i++) h = (h ^ p[i]) * 1099511628211ull;
    if (memcmp(&got[t], &ref[t], sizeof got[t]) != 0) {
      sh->viol++;
      if (sh->viol <= 20) {
        printf("VIOL result ");
        print_sched();
        printf(" | thread %d: ret %d/%d off %d/%d dest %d, alone: ret %d/%d off %d/%d dest %d; code %s\n", t, got[t].ret1,
               got[t].ret2, got[t].off1, got[t].off2, got[t].dest, ref[t].ret1, ref[t].ret2, ref[t].off1, ref[t].off2, ref[t].dest,
               memcmp(got[t].code, ref[t].code, C18_BUF) ? "differs" : "equal");
        fflush(stdout);
      }
    }
  }
  int n = sh->noutcomes, seen = 0;
  for (int i = 0; i < n; i++)
    if (sh->outcome_hash[i] == h) seen = 1;
  if (!seen && n < 64) {
    sh->outcome_hash[n] = h;
    sh->noutcomes = n + 1;
  }
}

static long shard, nshards;
#include <time.h>
static time_t t_end; /* exploration budget: when it is used up the search stops and reports CAPPED (never a verdict) */
static int capped;

static void explore(int depth) {
  /* publish the schedule, run it, check it */
  sh->cur_ndev = ndev;
  for (int d = 0; d < ndev; d++) {
    sh->cur_point[d] = dev_point[d];
    sh->cur_target[d] = dev_target[d];
  }
  long np = run_schedule();
  sh->schedules++;
  if (np < 0) {
    sh->viol++;
    if (sh->viol <= 20) {
      printf("VIOL crash ");
      print_sched();
      printf(" | execution died: %s %d\n", WIFSIGNALED(last_status) ? "signal" : "exit",
             WIFSIGNALED(last_status) ? WTERMSIG(last_status) : WEXITSTATUS(last_status));
      fflush(stdout);
    }
    return;
  }
  if (np > sh->maxpoints) sh->maxpoints = np;
  check();
  if (depth >= kmax) return;
  if (np > MAXP) np = MAXP;
  /* copy the trace: deeper runs overwrite it */
  unsigned char *thr = malloc((size_t)np), *fin = malloc((size_t)np);
  memcpy(thr, tr_thread, (size_t)np);
  memcpy(fin, tr_fin, (size_t)np);
  long from = ndev ? dev_point[ndev - 1] + 1 : 0;
  for (long i = from; i < np; i++) {
    if (depth == 0 && (i % nshards) != shard) continue;
    if (t_end && time(NULL) > t_end) {
      capped = 1;
      sh->capped = 1;
      break;
    }
    for (int t = 0; t < nthreads; t++) {
      if (t == thr[i] || (fin[i] >> t) & 1) continue;
      dev_point[ndev] = i;
      dev_target[ndev] = t;
      ndev++;
      explore(depth + 1);
      ndev--;
    }
  }
  free(thr);
  free(fin);
}

int main(int argc, char **argv) {
  if (argc < 6) return 2;
  nthreads = atoi(argv[1]);
  variant = atoi(argv[2]);
  kmax = atoi(argv[3]);
  shard = atol(argv[4]);
  nshards = atol(argv[5]);
  coarse = argc > 6 && !strcmp(argv[6], "coarse");
  access_mode = argc > 6 && !strcmp(argv[6], "access");
  int replay = !strcmp(argv[3], "replay");
  if (replay) {
    /* sched <n> <variant> replay <p>t,<p>t,... [gran]  (schedule in argv[4]; '-' = no deviation) */
    kmax = 0;
    ndev = 0;
    const char *q = argv[4];
    while (*q && *q != '-' && ndev < MAXDEV) {
      char *e;
      dev_point[ndev] = strtol(q, &e, 10);
      if (*e != '>') break;
      dev_target[ndev] = (int)strtol(e + 1, &e, 10);
      ndev++;
      q = *e == ',' ? e + 1 : e;
    }
    coarse = argc > 5 && !strcmp(argv[5], "coarse");
    access_mode = argc > 5 && !strcmp(argv[5], "access");
    shard = 0;
    nshards = 1;
  }
  setvbuf(stdout, NULL, _IOLBF, 0);
  if (getenv("SCHED_BUDGET") && atoi(getenv("SCHED_BUDGET")) > 0) t_end = time(NULL) + atoi(getenv("SCHED_BUDGET"));
  if (!getenv("SCHED_KEEP_STDERR")) {
    int dn = open("/dev/null", 1);
    if (dn >= 0) dup2(dn, 2);
  }
  sh = mmap(NULL, sizeof *sh, PROT_READ | PROT_WRITE, MAP_SHARED | MAP_ANONYMOUS, -1, 0);
  memset((void *)sh, 0, sizeof *sh);
  ex = mmap(NULL, sizeof *ex, PROT_READ | PROT_WRITE, MAP_SHARED | MAP_ANONYMOUS, -1, 0);
  /* single-threaded references (unmanaged: self = -1), each body alone in its own fresh process */
  for (int t = 0; t < nthreads; t++) {
    pid_t c = fork();
    if (c == 0) {
      c18_body(t, variant, bufs[t], &ex->got[t]);
      _exit(0);
    }
    int st = 0;
    while (waitpid(c, &st, 0) < 0 && errno == EINTR) {}
    if (!(WIFEXITED(st) && WEXITSTATUS(st) == 0)) {
      printf("VIOL crash [] | single-threaded reference of body %d died\n", t);
      return 0;
    }
    memcpy(&ref[t], &ex->got[t], sizeof ref[t]);
  }
  pid_t w = fork();
  if (w == 0) {
    if (replay) {
      explore(0);
      _exit(0);
    }
    ndev = 0;
    if (shard == 0) {
      explore(0);
    } else {
      /* other shards skip re-counting the zero-deviation schedule but need its trace */
      explore(0);
      sh->schedules--;
    }
    _exit(0);
  }
  int st = 0;
  while (waitpid(w, &st, 0) < 0 && errno == EINTR) {}
  if (!(WIFEXITED(st) && WEXITSTATUS(st) == 0)) {
    printf("VIOL crash [");
    for (int d = 0; d < sh->cur_ndev; d++) printf("%s%ld>%d", d ? "," : "", sh->cur_point[d], sh->cur_target[d]);
    printf("] | worker died: %s %d\n", WIFSIGNALED(st) ? "signal" : "exit", WIFSIGNALED(st) ? WTERMSIG(st) : WEXITSTATUS(st));
    sh->viol++;
  }
  printf("DONE schedules=%ld points=%ld maxpreempt=%d outcomes=%d violations=%ld capped=%d\n", sh->schedules, sh->maxpoints, kmax,
         sh->noutcomes, sh->viol, sh->capped);
  return 0;
}
