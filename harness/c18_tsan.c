/* Free-running twin of the C18 scheduler harness: the same bodies on N threads x ITER iterations under ThreadSanitizer.
 * A cooperative scheduler's hand-offs are happens-before edges that would blind a race detector, hence this separate pass.
 *   c18_tsan <threads> <iterations>      exit code 66 + reports on stderr if TSan saw a race */
#include <pthread.h>
#include <stdio.h>
#include <stdlib.h>

#include "c18_bodies.h"

static int iters;
static struct c18_result ref[2][C18_MAXT];
static int mismatches;

static void *worker(void *arg) {
  int slot = (int)(long)arg;
  int id = slot % C18_MAXT;
  uint8_t *buf = malloc(C18_BUF);
  struct c18_result r;
  for (int i = 0; i < iters; i++) {
    int variant = i & 1;
    c18_body(id, variant, buf, &r);
    if (memcmp(&r, &ref[variant][id], sizeof r) != 0) __atomic_fetch_add(&mismatches, 1, __ATOMIC_RELAXED);
  }
  free(buf);
  return NULL;
}

int main(int argc, char **argv) {
  int n = argc > 1 ? atoi(argv[1]) : 16;
  iters = argc > 2 ? atoi(argv[2]) : 2000;
  uint8_t buf[C18_BUF];
  for (int v = 0; v < 2; v++)
    for (int t = 0; t < C18_MAXT; t++) c18_body(t, v, buf, &ref[v][t]);
  pthread_t th[64];
  if (n > 64) n = 64;
  for (int t = 0; t < n; t++) pthread_create(&th[t], NULL, worker, (void *)(long)t);
  for (int t = 0; t < n; t++) pthread_join(th[t], NULL);
  printf("DONE threads=%d iterations=%d mismatches=%d\n", n, iters, mismatches);
  return mismatches ? 3 : 0;
}
