/* Free-running twin of the C18 scheduler harness: the same bodies on N threads x ITER iterations under ThreadSanitizer.
 * A cooperative scheduler's hand-offs are happens-before edges that would blind a race detector, hence this separate pass.
 *   c18_tsan <threads> <iterations>      exit code 66 + reports on stderr if TSan saw a race */
#define _GNU_SOURCE
#include <pthread.h>
#include <stdio.h>
#include <stdlib.h>

#include "c18_bodies.h"

void c18_quiet(int on) { (void)on; }

/* ThreadSanitizer resets its shadow state on mmap and munmap but does not know mremap: a buffer that the kernel moves to an
 * address range another thread's buffer occupied a moment ago would be reported as a race between the two owners' writes.
 * In this twin a growing mremap is therefore carried out as mmap + copy + munmap (always a move, which MREMAP_MAYMOVE
 * permits), i.e. with calls the detector understands. */
#include <sys/mman.h>
void *__real_mremap(void *, size_t, size_t, int, ...);
void *__wrap_mremap(void *a, size_t o, size_t n, int fl, ...) {
  if (!(fl & MREMAP_MAYMOVE) || (fl & ~MREMAP_MAYMOVE)) return __real_mremap(a, o, n, fl);
  void *r = mmap(NULL, n, PROT_READ | PROT_WRITE | PROT_EXEC, MAP_PRIVATE | MAP_ANONYMOUS, -1, 0);
  if (r == MAP_FAILED) return r;
  memcpy(r, a, o < n ? o : n);
  munmap(a, o);
  return r;
}

static int iters;
static struct c18_result ref[3][C18_MAXT];
static int mismatches;

static void *worker(void *arg) {
  int slot = (int)(long)arg;
  int id = slot % C18_MAXT;
  uint8_t *buf = malloc(C18_BUF);
  struct c18_result r;
  for (int i = 0; i < iters; i++) {
    int variant = (i % 8 == 7) ? 2 : (i & 1);   /* every eighth round: the body with buffer growth and re-creation */
    c18_body(id, variant, buf, &r);
    if (memcmp(&r, &ref[variant][id], sizeof r) != 0) __atomic_fetch_add(&mismatches, 1, __ATOMIC_RELAXED);
  }
  free(buf);
  return NULL;
}

int main(int argc, char **argv) {
  int n = argc > 1 ? atoi(argv[1]) : 16;
  iters = argc > 2 ? atoi(argv[2]) : 2000;
  uint8_t buf[C18_BUF];
  for (int v = 0; v < 3; v++)
    for (int t = 0; t < C18_MAXT; t++) c18_body(t, v, buf, &ref[v][t]);
  pthread_t th[64];
  if (n > 64) n = 64;
  for (int t = 0; t < n; t++) pthread_create(&th[t], NULL, worker, (void *)(long)t);
  for (int t = 0; t < n; t++) pthread_join(th[t], NULL);
  printf("DONE threads=%d iterations=%d mismatches=%d\n", n, iters, mismatches);
  return mismatches ? 3 : 0;
}
