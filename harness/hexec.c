/*
 * hexec — the one executor through which every check calls the library (DESIGN 4.1b).
 *
 * stdin : one history per line:   <id> TAB <op> TAB <op> ...
 *         an id starting with '!' is "dangerous": it runs in its own forked child.
 * stdout: one line per history:   <id> TAB <obs> TAB <obs> ...   (or  <id> TAB CRASH:<sig>:<info>)
 *
 * ops (text/path arguments are escaped: \n \t \r \\ \xHH):
 *   c<n>:<layout>:<fillhex>   create instance on a caller buffer of n bytes; layout e (end flush against a
 *                             PROT_NONE page), s (start flush after one), p (plain, canaries both sides)
 *   i                         create instance with library-managed buffer
 *   @<k>                      make instance k current (instances are numbered in creation order)
 *   d                         destroy current instance
 *   m<v> w<v> b<v> s<v> a<v>  asm_mov_imm / asm_sib_index_base_swap / asm_sib_no_base / asm_sib / asm_set_all
 *   k<c>                      asm_set_chunk_size        o<k>  asm_set_offset
 *   A<text>                   asm_assemble_str          N<c>:<text>  asm_assemble_string_counting_chunks
 *   f<path>                   asm_assemble_file         n<c>:<path>  asm_assemble_file_counting_chunks
 *   B<path>                   asm_create_bin_file
 *   x                         call the code in a forked child, report rax
 *   u<id>                     setgroups/setgid/setuid to id (drop privileges; use only in dangerous = per-history child mode)
 *   S                         dump struct assemblyline field-wise (state_dump.c, compiled against repo header)
 *   R<fillhex>                refill the caller buffer
 *   Z<spec>                   (wrap variant) fault plan, see wrap_libc.c
 */
#define _GNU_SOURCE
#include <errno.h>
#include <fcntl.h>
#include <grp.h>
#include <signal.h>
#include <stdint.h>
#include <stdio.h>
#include <stdlib.h>
#include <string.h>
#include <sys/mman.h>
#include <sys/time.h>
#include <sys/wait.h>
#include <unistd.h>

#include "assemblyline.h"

extern void hx_state_dump(assemblyline_t al, char *out, size_t cap);

#ifdef HEXEC_WRAP
extern void hxw_reset(void);
extern void hxw_plan(const char *spec);
extern void hxw_enter(void);
extern void hxw_leave(void);
extern size_t hxw_trace(char *out, size_t cap);
extern void hxw_step(void);
#define API_ENTER() hxw_enter()
#define API_LEAVE() hxw_leave()
#else
#define API_ENTER() ((void)0)
#define API_LEAVE() ((void)0)
#endif

#define MAXI 8
#define PAGE 4096
#define CANARY 0xA5
#define HEXCAP 4096

struct inst {
  assemblyline_t al;
  uint8_t *buf;
  int n;
  char layout;
  uint8_t *map;
  size_t maplen;
  uint8_t *snap;
  int alive, external;
};

static struct inst I[MAXI + 1]; /* I[MAXI]: never alive, target of an invalid @k */
static int ninst, cur;

/* ---- shared output area -------------------------------------------------------------------- */
struct shared {
  volatile long index;     /* history being executed */
  volatile size_t outlen;  /* committed bytes in out[] */
  volatile int in_history;
  char out[];
};
#define OUTCAP (64u << 20)
static struct shared *sh;
static int errfd = -1; /* fd 2 target: temp file scanned for sanitizer reports */
static int hist_timeout = 4;

static void out_flush(void) {
  size_t off = 0, len = sh->outlen;
  while (off < len) {
    ssize_t w = write(1, sh->out + off, len - off);
    if (w <= 0) {
      if (errno == EINTR) continue;
      _exit(3);
    }
    off += (size_t)w;
  }
  sh->outlen = 0;
}

/* line under construction (private), committed at the end of a history */
static char *line;
static size_t linelen, linecap;
static void lput(const char *s, size_t n) {
  if (linelen + n + 1 > linecap) {
    linecap = (linelen + n + 1) * 2;
    line = realloc(line, linecap);
  }
  memcpy(line + linelen, s, n);
  linelen += n;
}
static void lputs(const char *s) { lput(s, strlen(s)); }
static void lprintf(const char *fmt, ...) __attribute__((format(printf, 1, 2)));
#include <stdarg.h>
static void lprintf(const char *fmt, ...) {
  char tmp[512];
  va_list ap;
  va_start(ap, fmt);
  int n = vsnprintf(tmp, sizeof tmp, fmt, ap);
  va_end(ap);
  if (n > (int)sizeof tmp - 1) n = sizeof tmp - 1;
  lput(tmp, (size_t)n);
}
static void commit_line(void) {
  if (sh->outlen + linelen + 1 > OUTCAP) out_flush();
  memcpy(sh->out + sh->outlen, line, linelen);
  sh->out[sh->outlen + linelen] = '\n';
  sh->outlen += linelen + 1;
  linelen = 0;
}

/* ---- helpers -------------------------------------------------------------------------------- */
/* unescape with a repetition form: \{N:text\} stands for text repeated N times (no nesting) */
static char *unescape(const char *s, const char *end) {
  size_t cap = (size_t)(end - s) + 16, len = 0;
  char *o = malloc(cap);
#define PUT(c)                                                                                     \
  do {                                                                                             \
    if (len + 2 > cap) o = realloc(o, cap *= 2);                                                   \
    o[len++] = (c);                                                                                \
  } while (0)
  while (s < end) {
    if (*s == '\\' && s + 1 < end) {
      s++;
      switch (*s) {
      case 'n': PUT('\n'); s++; break;
      case 't': PUT('\t'); s++; break;
      case 'r': PUT('\r'); s++; break;
      case '\\': PUT('\\'); s++; break;
      case 'x': {
        unsigned v = 0;
        sscanf(s + 1, "%2x", &v);
        PUT((char)v);
        s += 3;
        break;
      }
      case '{': {
        long n = strtol(s + 1, (char **)&s, 10);
        const char *b = s + 1, *e = b;
        while (e + 1 < end && !(e[0] == '\\' && e[1] == '}')) e++;
        char *inner = unescape(b, e);
        size_t il = strlen(inner);
        for (long k = 0; k < n; k++)
          for (size_t q = 0; q < il; q++) PUT(inner[q]);
        free(inner);
        s = e + 2 <= end ? e + 2 : end;
        break;
      }
      default: PUT(*s); s++; break;
      }
    } else {
      PUT(*s);
      s++;
    }
  }
#undef PUT
  o[len] = 0;
  /* hand out a block of exactly len + 1 bytes: on the sanitizer build a scan that runs past the terminating NUL then lands in
   * the red zone instead of in the slack of the growth buffer (seeded/C09_6) */
  char *exact = malloc(len + 1);
  if (!exact) return o;
  memcpy(exact, o, len + 1);
  free(o);
  return exact;
}

static uint64_t fnv(const uint8_t *p, size_t n) {
  uint64_t h = 1469598103934665603ull;
  for (size_t i = 0; i < n; i++) h = (h ^ p[i]) * 1099511628211ull;
  return h;
}

static void put_bytes(const uint8_t *p, long n) {
  static const char hx[] = "0123456789abcdef";
  if (n < 0) n = 0;
  if (n > HEXCAP) {
    lprintf("#%ld:%016llx", n, (unsigned long long)fnv(p, (size_t)n));
    return;
  }
  char tmp[2 * HEXCAP + 1];
  for (long i = 0; i < n; i++) {
    tmp[2 * i] = hx[p[i] >> 4];
    tmp[2 * i + 1] = hx[p[i] & 15];
  }
  lput(tmp, (size_t)(2 * n));
}

static int canary_ok(struct inst *t) {
  if (!t->external) return 1;
  uint8_t *lo0, *lo1, *hi0, *hi1;
  switch (t->layout) {
  case 'e': lo0 = t->map; lo1 = t->buf; hi0 = hi1 = NULL; break;
  case 's': lo0 = lo1 = NULL; hi0 = t->buf + t->n; hi1 = t->map + t->maplen; break;
  default: lo0 = t->map; lo1 = t->buf; hi0 = t->buf + t->n; hi1 = t->map + t->maplen; break;
  }
  for (uint8_t *p = lo0; p < lo1; p++)
    if (*p != CANARY) return 0;
  for (uint8_t *p = hi0; p < hi1; p++)
    if (*p != CANARY) return 0;
  return 1;
}

static void do_create(const char *arg) {
  int n = 0;
  char layout = 'p';
  unsigned fill = 0xCC;
  sscanf(arg, "%d:%c:%x", &n, &layout, &fill);
  if (ninst >= MAXI) { lputs("c:E"); return; }
  struct inst *t = &I[ninst];
  memset(t, 0, sizeof *t);
  t->n = n;
  t->layout = layout;
  t->external = 1;
  size_t body = ((size_t)n + 64 + PAGE - 1) / PAGE * PAGE;
  if (layout == 'e' || layout == 's') {
    uint8_t *m = mmap(NULL, body + PAGE, PROT_READ | PROT_WRITE | PROT_EXEC, MAP_PRIVATE | MAP_ANONYMOUS, -1, 0);
    if (m == MAP_FAILED) { lputs("c:E"); return; }
    memset(m, CANARY, body + PAGE);
    if (layout == 'e') {
      mprotect(m + body, PAGE, PROT_NONE);
      t->map = m;
      t->maplen = body;
      t->buf = m + body - n;
    } else {
      mprotect(m, PAGE, PROT_NONE);
      t->map = m + PAGE;
      t->maplen = body;
      t->buf = m + PAGE;
    }
  } else {
    size_t tot = ((size_t)n + 128 + PAGE - 1) / PAGE * PAGE;
    uint8_t *m = mmap(NULL, tot, PROT_READ | PROT_WRITE | PROT_EXEC, MAP_PRIVATE | MAP_ANONYMOUS, -1, 0);
    if (m == MAP_FAILED) { lputs("c:E"); return; }
    memset(m, CANARY, tot);
    t->map = m;
    t->maplen = tot;
    t->buf = m + 64;
  }
  memset(t->buf, (int)fill, (size_t)n);
  t->snap = malloc((size_t)n + 1);
  API_ENTER();
  t->al = asm_create_instance(t->buf, n);
  API_LEAVE();
  t->alive = t->al != NULL;
  cur = ninst++;
  lprintf("c:%d", t->alive);
}

static void do_create_internal(void) {
  if (ninst >= MAXI) { lputs("i:E"); return; }
  struct inst *t = &I[ninst];
  memset(t, 0, sizeof *t);
  API_ENTER();
  t->al = asm_create_instance(NULL, 0);
  API_LEAVE();
  t->alive = t->al != NULL;
  cur = ninst++;
  lprintf("i:%d", t->alive);
}

enum { K_STR, K_CNT, K_FILE, K_FCNT };

static void do_assemble(int kind, const char *arg, const char *end, char tag) {
  struct inst *t = &I[cur];
  if (!t->alive) { lprintf("%c:E", tag); return; }
  int c = 0;
  if (kind == K_CNT || kind == K_FCNT) {
    c = atoi(arg);
    const char *q = memchr(arg, ':', (size_t)(end - arg));
    arg = q ? q + 1 : end;
  }
  char *text = unescape(arg, end);
  int start = asm_get_offset(t->al);
  if (t->external) memcpy(t->snap, t->buf, (size_t)t->n);
  int dest = -777, ret;
  API_ENTER();
  switch (kind) {
  case K_STR: ret = asm_assemble_str(t->al, text); break;
  case K_CNT: ret = asm_assemble_string_counting_chunks(t->al, text, c, &dest); break;
  case K_FILE: ret = asm_assemble_file(t->al, text); break;
  default: ret = asm_assemble_file_counting_chunks(t->al, text, c, &dest); break;
  }
  API_LEAVE();
  int off = asm_get_offset(t->al);
  long lo = -2, hi = -2;
  uint8_t *code = asm_get_code(t->al);
  if (t->external) {
    lo = hi = -1;
    for (long i = 0; i < t->n; i++)
      if (t->buf[i] != t->snap[i]) {
        if (lo < 0) lo = i;
        hi = i + 1;
      }
  }
  long endb = off;
  if (hi > endb) endb = hi;
  long cap = t->external ? t->n : (1L << 30);
  lprintf("%c:%d:%d:%ld:%ld:", tag, ret, off, lo, hi);
  if (start >= 0 && start <= cap && endb >= start && endb <= cap) put_bytes(code + start, endb - start);
  lprintf(":%d", canary_ok(t));
  if (kind == K_CNT || kind == K_FCNT) lprintf(":%d", dest);
  free(text);
}

static void do_call(void) {
  struct inst *t = &I[cur];
  if (!t->alive) { lputs("x:E"); return; }
  int pfd[2];
  if (pipe(pfd)) { lputs("x:E"); return; }
  pid_t p = fork();
  if (p == 0) {
    alarm(2);
    uint64_t (*fn)(void) = (uint64_t(*)(void))asm_get_code(t->al);
    uint64_t r = fn();
    if (write(pfd[1], &r, sizeof r) != sizeof r) _exit(9);
    _exit(0);
  }
  close(pfd[1]);
  int st = 0;
  uint64_t r = 0;
  ssize_t got = read(pfd[0], &r, sizeof r);
  close(pfd[0]);
  waitpid(p, &st, 0);
  if (WIFSIGNALED(st) || got != (ssize_t)sizeof r)
    lprintf("x:%d:0", WIFSIGNALED(st) ? WTERMSIG(st) : 99);
  else
    lprintf("x:0:%llx", (unsigned long long)r);
}

static void run_history(char *s, char *e) {
  /* s..e: ops separated by TAB */
  for (int i = 0; i < ninst; i++) { /* instances never survive a history */
    if (I[i].alive) {
      asm_destroy_instance(I[i].al);
    }
    if (I[i].external) {
      if (I[i].layout == 's')
        munmap(I[i].map - PAGE, I[i].maplen + PAGE);
      else if (I[i].layout == 'e')
        munmap(I[i].map, I[i].maplen + PAGE);
      else
        munmap(I[i].map, I[i].maplen);
      free(I[i].snap);
    }
  }
  ninst = 0;
  cur = 0;
#ifdef HEXEC_WRAP
  hxw_reset();
#endif
  while (s < e) {
    char *t = memchr(s, '\t', (size_t)(e - s));
    if (!t) t = e;
    char op = *s;
    const char *arg = s + 1;
    char save = *t;
    *t = 0;
    lputs("\t");
#ifdef HEXEC_WRAP
    hxw_step();
#endif
    switch (op) {
    case 'c': do_create(arg); break;
    case 'i': do_create_internal(); break;
    case '@': {
      int k = atoi(arg);
      cur = (k >= 0 && k < ninst) ? k : MAXI;
      lprintf("@:%d", cur == MAXI ? -1 : cur);
      break;
    }
    case 'd':
      if (I[cur].alive) {
        API_ENTER();
        int r = asm_destroy_instance(I[cur].al);
        API_LEAVE();
        I[cur].alive = 0;
        lprintf("d:%d", r);
      } else
        lputs("d:E");
      break;
    case 'm': case 'w': case 'b': case 's': case 'a': {
      int v = atoi(arg);
      if (!I[cur].alive) { lprintf("%c:E", op); break; }
      assemblyline_t al = I[cur].al;
      if (op == 'm') asm_mov_imm(al, (enum asm_opt)v);
      else if (op == 'w') asm_sib_index_base_swap(al, (enum asm_opt)v);
      else if (op == 'b') asm_sib_no_base(al, (enum asm_opt)v);
      else if (op == 's') asm_sib(al, (enum asm_opt)v);
      else asm_set_all(al, (enum asm_opt)v);
      lprintf("%c:", op);
      break;
    }
    case 'k':
      if (I[cur].alive) asm_set_chunk_size(I[cur].al, (size_t)strtoll(arg, NULL, 10));
      lputs("k:");
      break;
    case 'o':
      if (I[cur].alive) asm_set_offset(I[cur].al, atoi(arg));
      lputs("o:");
      break;
    case 'A': do_assemble(K_STR, arg, t, 'A'); break;
    case 'N': do_assemble(K_CNT, arg, t, 'N'); break;
    case 'f': do_assemble(K_FILE, arg, t, 'f'); break;
    case 'n': do_assemble(K_FCNT, arg, t, 'n'); break;
    case 'B': {
      if (!I[cur].alive) { lputs("B:E"); break; }
      char *path = unescape(arg, t);
      API_ENTER();
      int r = asm_create_bin_file(I[cur].al, path);
      API_LEAVE();
      lprintf("B:%d:%d", r, asm_get_offset(I[cur].al));
      free(path);
      break;
    }
    case 'x': do_call(); break;
    case 'u': { /* drop privileges (only meaningful in a per-history child): setgid/setuid to the given id */
      int id = atoi(arg);
      int r1 = setgroups(0, NULL), r2 = setgid((gid_t)id), r3 = setuid((uid_t)id);
      lprintf("u:%d", (r1 || r2 || r3) ? -1 : (int)geteuid());
      break;
    }
    case 'S': {
      char tmp[256];
      if (!I[cur].alive) { lputs("S:E"); break; }
      hx_state_dump(I[cur].al, tmp, sizeof tmp);
      lputs("S:");
      lputs(tmp);
      break;
    }
    case 'G': { /* get: offset and digest of code[0,offset) */
      if (!I[cur].alive) { lputs("G:E"); break; }
      int off = asm_get_offset(I[cur].al);
      lprintf("G:%d:", off);
      long cap = I[cur].external ? I[cur].n : (1L << 30);
      if (off >= 0 && off <= cap) put_bytes(asm_get_code(I[cur].al), off);
      lprintf(":%d", canary_ok(&I[cur]));
      break;
    }
    case 'R': {
      unsigned fill = 0;
      sscanf(arg, "%x", &fill);
      if (I[cur].external) memset(I[cur].buf, (int)fill, (size_t)I[cur].n);
      lputs("R:");
      break;
    }
#ifdef HEXEC_WRAP
    case 'Z': hxw_plan(arg); lputs("Z:"); break;
#endif
    default: lprintf("?:%c", op); break;
    }
    *t = save;
    s = t + 1;
  }
#ifdef HEXEC_WRAP
  {
    char tr[4096];
    size_t n = hxw_trace(tr, sizeof tr);
    lputs("\tT:");
    lput(tr, n);
  }
#endif
}

/* scan the stderr capture file for sanitizer reports; returns 1 and a summary if found */
static int scan_errfile(char *sum, size_t cap) {
  sum[0] = 0;
  if (errfd < 0) return 0;
  off_t len = lseek(errfd, 0, SEEK_END);
  if (len <= 0) return 0;
  size_t n = len > (1 << 20) ? (1 << 20) : (size_t)len;
  char *b = malloc(n + 1);
  ssize_t got = pread(errfd, b, n, 0);
  int found = 0;
  if (got > 0) {
    b[got] = 0;
    static const char *marks[] = {"runtime error:", "ERROR: AddressSanitizer", "WARNING: MemorySanitizer",
                                  "ERROR: LeakSanitizer", "SUMMARY: ", NULL};
    char *best = NULL;
    for (int m = 0; marks[m]; m++) {
      char *p = strstr(b, marks[m]);
      if (p && (!best || m == 4)) best = p, found = 1;
      if (p && m == 0) break; /* UBSan line carries file:line itself */
    }
    if (found) {
      /* take the whole line containing best */
      char *ls = best;
      while (ls > b && ls[-1] != '\n') ls--;
      char *le = strchr(best, '\n');
      if (!le) le = b + got;
      size_t k = (size_t)(le - ls);
      if (k > cap - 1) k = cap - 1;
      memcpy(sum, ls, k);
      sum[k] = 0;
      for (char *q = sum; *q; q++)
        if (*q == '\t' || *q == '\n') *q = ' ';
    }
  }
  free(b);
  if (ftruncate(errfd, 0)) {}
  lseek(errfd, 0, SEEK_SET);
  return found;
}

static void one_history(char *ls, char *le) {
  char *t = memchr(ls, '\t', (size_t)(le - ls));
  if (!t) t = le;
  linelen = 0;
  lput(ls, (size_t)(t - ls));
  struct itimerval it = {{0, 0}, {hist_timeout, 0}};
  setitimer(ITIMER_REAL, &it, NULL);
  run_history(t < le ? t + 1 : le, le);
  struct itimerval z = {{0, 0}, {0, 0}};
  setitimer(ITIMER_REAL, &z, NULL);
  char sum[400];
  if (scan_errfile(sum, sizeof sum)) {
    lputs("\tSAN:");
    lputs(sum);
  }
  commit_line();
}

int main(int argc, char **argv) {
  const char *inpath = NULL;
  for (int i = 1; i < argc; i++) {
    if (!strcmp(argv[i], "-t") && i + 1 < argc) hist_timeout = atoi(argv[++i]);
    else inpath = argv[i];
  }
  /* read all input */
  FILE *in = inpath ? fopen(inpath, "rb") : stdin;
  if (!in) { perror("input"); return 2; }
  size_t cap = 1 << 20, len = 0;
  char *buf = malloc(cap);
  for (;;) {
    if (len + (1 << 16) > cap) buf = realloc(buf, cap *= 2);
    size_t r = fread(buf + len, 1, cap - len - 1, in);
    if (!r) break;
    len += r;
  }
  /* index lines */
  size_t nl = 0, lcap = 1024;
  char **ls = malloc(lcap * sizeof *ls), **le = malloc(lcap * sizeof *le);
  for (size_t i = 0; i < len;) {
    char *e = memchr(buf + i, '\n', len - i);
    if (!e) e = buf + len;
    if (e > buf + i) {
      if (nl == lcap) {
        lcap *= 2;
        ls = realloc(ls, lcap * sizeof *ls);
        le = realloc(le, lcap * sizeof *le);
      }
      ls[nl] = buf + i;
      le[nl] = e;
      nl++;
    }
    i = (size_t)(e - buf) + 1;
  }
  sh = mmap(NULL, sizeof *sh + OUTCAP, PROT_READ | PROT_WRITE, MAP_SHARED | MAP_ANONYMOUS, -1, 0);
  if (sh == MAP_FAILED) { perror("mmap"); return 2; }
  sh->index = 0;
  sh->outlen = 0;
  /* stderr capture */
  {
    char tmpl[512];
    snprintf(tmpl, sizeof tmpl, "%s/hexec_err_XXXXXX", getenv("HEXEC_TMP") ? getenv("HEXEC_TMP") : "/tmp");
    const char *san = getenv("HEXEC_SCAN_STDERR");
    if (san && *san == '1') {
      errfd = mkstemp(tmpl);
      if (errfd >= 0) {
        unlink(tmpl);
        fcntl(errfd, F_SETFL, O_APPEND);
        dup2(errfd, 2);
      }
    } else if (!getenv("HEXEC_KEEP_STDERR")) {
      int dn = open("/dev/null", O_WRONLY);
      if (dn >= 0) dup2(dn, 2);
    }
  }
  setvbuf(stdout, NULL, _IONBF, 0);
  while ((size_t)sh->index < nl) {
    pid_t w = fork();
    if (w == 0) {
      while ((size_t)sh->index < nl) {
        size_t k = (size_t)sh->index;
        if (*ls[k] == '!') {
          pid_t g = fork();
          if (g == 0) {
            one_history(ls[k], le[k]);
            _exit(0);
          }
          int st = 0;
          waitpid(g, &st, 0);
          if (!(WIFEXITED(st) && WEXITSTATUS(st) == 0)) {
            char sum[400];
            scan_errfile(sum, sizeof sum);
            char *t = memchr(ls[k], '\t', (size_t)(le[k] - ls[k]));
            if (!t) t = le[k];
            linelen = 0;
            lput(ls[k], (size_t)(t - ls[k]));
            lprintf("\tCRASH:%d:", WIFSIGNALED(st) ? WTERMSIG(st) : 1000 + WEXITSTATUS(st));
            lputs(sum);
            commit_line();
          }
        } else
          one_history(ls[k], le[k]);
        sh->index = (long)k + 1;
      }
      _exit(0);
    }
    int st = 0;
    while (waitpid(w, &st, 0) < 0 && errno == EINTR) {}
    if ((size_t)sh->index < nl) {
      /* the worker died while executing history sh->index */
      size_t k = (size_t)sh->index;
      char sum[400];
      scan_errfile(sum, sizeof sum);
      char *t = memchr(ls[k], '\t', (size_t)(le[k] - ls[k]));
      if (!t) t = le[k];
      linelen = 0;
      lput(ls[k], (size_t)(t - ls[k]));
      lprintf("\tCRASH:%d:", WIFSIGNALED(st) ? WTERMSIG(st) : 1000 + WEXITSTATUS(st));
      lputs(sum);
      commit_line();
      sh->index = (long)k + 1;
    }
    out_flush();
  }
  out_flush();
  return 0;
}
